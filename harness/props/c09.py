"""C09 - reported error locations point at a real, consistent input location."""
import os
import random
import re

from common import Driver, XDRIVER, codes
import realrun
import corerun
from props import c01

ID = 'C09'
THEOREMS = [
    'Tie.linecol_spec',
    'Tie.excerpt_spec',
    'Tie.map_index_eq',
    'Tie.linecol_defined_iff',
    'Tie.linecol_at_newline',
]
TIE_MODULES = ['Tie.Excerpt']
TRANSLATORS = ('excerpt',)
ASSUMPTIONS = [
    'bytes input: the repr() rendering is not modelled (opaque in Lean); exercised on the implementation only',
    'the clause "index never beyond the first character no token can match" is tied through the failing _pos of the code model (gen) on the C01 grammar set, not proved',
]

GRAMMAR_PE = 'start = [/[a-z\\r\\n]*/, "!"]\n'        # fails at the first character outside [a-z\r\n]
GRAMMAR_PP = 'start = /[a-z\\r\\n]*/\n'               # partial parse at the same character


def expected_linecol(text, index):
    line = 1 + text.count('\n', 0, index)
    col = 1 + index - (text.rfind('\n', 0, index) + 1)
    return line, col


def check_message(kind, msg, text, index, line, col):
    """the property predicate on one implementation message; returns None or a complaint"""
    lines = msg.split('\n')
    if kind == 'ParseError':
        head = f'Error on line {line}, column {col}:'
    else:
        head = f'Incomplete parse. Unexpected input on line {line}, column {col}:'
    if lines[0] != head:
        return f'first line {lines[0]!r} != {head!r}'
    if len(lines) < 3:
        return 'message too short'
    l, caret = lines[1], lines[2]
    if not re.fullmatch(r' *\^', caret):
        return f'third line is not a caret line: {caret!r} (excerpt spilled over a line break?)'
    k = len(caret) - 1
    if k >= len(l):
        return f'caret at {k} beyond the excerpt line of length {len(l)}'
    if l[k] != text[index]:
        return f'caret stands under {l[k]!r}, the character at the index is {text[index]!r}'
    return None


def sweep(tier):
    """line length x error column across every regime boundary x position of the line"""
    mod_pe, _ = realrun.compile_grammar(GRAMMAR_PE)
    mod_pp, _ = realrun.compile_grammar(GRAMMAR_PP)
    bad = []
    n = 0
    nontrivial = 0
    lengths = list(range(1, 140)) + [150, 180, 200, 250, 300, 400, 421] if tier == 'quick' else list(range(1, 431))
    samples = []
    for L in lengths:
        cols = set()
        for b in (0, 1, 2, 39, 40, 41, 42, 43, 44, 45, 46, 47, 57, 58, 59, 60, 61, 62, 89, 90, 91, 94, 95, 96, 97):
            for d in (-1, 0, 1):
                cols.add(b + d)
        for b in (L - 1, L - 39, L - 40, L - 41, L - 42, L - 43, L - 44, L - 45, L - 90, L - 91, L - 95, L - 96):
            for d in (-2, -1, 0, 1, 2):
                cols.add(b + d)
        if tier != 'quick' or L < 110:
            cols |= set(range(0, L))
        cols = sorted(c for c in cols if 0 <= c < L)
        for c0 in cols:
            line = 'a' * c0 + 'B' + 'c' * (L - c0 - 1)
            for where in ('only', 'first', 'middle', 'last', 'last-nl'):
                # quick tier thins the multi-line placements, but never at the distances from the end of the line where
                # the abbreviation regimes change (a thinning rule correlated with L - c0 once hid the distance 41)
                if where != 'only' and tier == 'quick' and (c0 % 3 != L % 3) and not (36 <= L - c0 <= 48):
                    continue
                if where == 'only':
                    text, off = line, 0
                elif where == 'first':
                    text, off = line + '\nxyz\n', 0
                elif where == 'middle':
                    text, off = 'pq\n\nrs\n' + line + '\nxyz', 7
                elif where == 'last':
                    text, off = 'pq\n' + line, 3
                else:
                    text, off = 'pq\n' + line + '\n', 3
                index = off + c0
                eline, ecol = expected_linecol(text, index)
                for kind, mod in (('ParseError', mod_pe), ('PartialParseError', mod_pp)):
                    n += 1
                    try:
                        mod.parse(text)
                        bad.append(_viol(kind, text, index, 'no error raised'))
                        continue
                    except mod.ParseError as exc:
                        pos = exc.position
                        got = 'ParseError'
                        msg = str(exc)
                    except mod.PartialParseError as exc:
                        pos = exc.last_position
                        got = 'PartialParseError'
                        msg = str(exc)
                    if got != kind:
                        bad.append(_viol(kind, text, index, f'raised {got}'))
                        continue
                    if pos.index != index:
                        bad.append(_viol(kind, text, index, f'index {pos.index} != {index}'))
                        continue
                    if (pos.line, pos.column) != (eline, ecol):
                        bad.append(_viol(kind, text, index, f'line/column {(pos.line, pos.column)} != {(eline, ecol)}'))
                        continue
                    complaint = check_message(kind, msg, text, index, eline, ecol)
                    if complaint:
                        bad.append(_viol(kind, text, index, complaint))
                    if L >= 96:
                        nontrivial += 1
                    if len(samples) < 3 and L in (120, 200) and c0 in (70, 100):
                        samples.append({'kind': kind, 'line_length': L, 'column': c0 + 1, 'message': msg.split('\n')[:3]})
    # end of input: ParseError with line/column None
    for text in ['', 'abc', 'abc\n', 'ab\ncd']:
        n += 1
        try:
            mod_pe.parse(text)
        except mod_pe.ParseError as exc:
            if exc.position.index != len(text) or exc.position.line is not None or exc.position.column is not None:
                bad.append(_viol('ParseError', text, len(text), f'end of input reported as {exc.position}'))
    # error right on the last character and right after a newline
    for text, index in [('aaa\nBaa\naaa\n', 4), ('aaaBaB', 3), ('aaaaaB', 5), ('a\n\nB', 3), ('\nB', 1), ('B', 0), ('ab\nB\n', 3),
                        ('ab\nB', 3), ('\n\n\nBx', 3),
                        # a carriage return is an ordinary character: only '\\n' ends a line
                        ('ab\r\ncd\r\nBx', 8), ('a\rb\rB', 4), ('\r\nB', 2), ('ab\r\ncB', 5),
                        # an error located in white space that runs to the end of the text is not "end of input"
                        ('abc ', 3), ('abc\t', 3), ('ab\ncd   ', 5), ('abc \n', 3), (' ', 0), ('a\n \n', 2)]:
        if index is None:
            continue
        n += 1
        eline, ecol = expected_linecol(text, index)
        for kind, mod in (('ParseError', mod_pe), ('PartialParseError', mod_pp)):
            try:
                mod.parse(text)
            except (mod.ParseError, mod.PartialParseError) as exc:
                pos = getattr(exc, 'position', None) or exc.last_position
                if pos.index != index or (pos.line, pos.column) != (eline, ecol):
                    bad.append(_viol(kind, text, index, f'position {tuple(pos)} != {(index, eline, ecol)}'))
                else:
                    complaint = check_message(type(exc).__name__, str(exc), text, index, eline, ecol)
                    if complaint:
                        bad.append(_viol(kind, text, index, complaint))
    # bytes input: a single line, no caret
    modb, _ = realrun.compile_grammar('start = [b/[a-z\\n]*/, b"!"]\n')
    for text in [b'abcB', b'ab\ncdBef', b'a' * 200 + b'B' + b'c' * 100, b'\n\nB', b'ab\ncd\nBe\n']:
        n += 1
        try:
            modb.parse(text)
        except modb.ParseError as exc:
            msg = str(exc).split('\n')
            idx = text.index(b'B')
            if exc.position.index != idx:
                bad.append(_viol('ParseError', text.decode(), idx, f'bytes index {exc.position.index}'))
            if '^' in msg[2] and re.fullmatch(r' *\^', msg[2]):
                bad.append(_viol('ParseError', text.decode(), idx, 'caret line in a bytes message'))
            # a bytes text is one line: iterating it yields integers, none of which is a line break
            if (exc.position.line, exc.position.column) != (1, idx + 1):
                bad.append(_viol('ParseError', text.decode(), idx, f'bytes position {tuple(exc.position)} != {(idx, 1, idx + 1)}'))
    modbp, _ = realrun.compile_grammar('start = b/[a-z\\n]*/\n')
    for text in [b'abcB', b'ab\ncdBef', b'\n\nB', b'ab\ncd?e\n']:
        n += 1
        idx = min(i for i, c in enumerate(text) if not (97 <= c <= 122 or c == 10))
        try:
            modbp.parse(text)
        except modbp.PartialParseError as exc:
            pos = exc.last_position
            if (pos.index, pos.line, pos.column) != (idx, 1, idx + 1):
                bad.append(_viol('PartialParseError', text.decode(), idx, f'bytes position {tuple(pos)} != {(idx, 1, idx + 1)}'))
    return n, nontrivial, samples, bad


def _viol(kind, text, index, what):
    return {'key': f'{kind}|{index}|{text}', 'sig': what.split(' ')[0] + kind, 'kind': 'spec', 'error_kind': kind, 'text': text,
            'index': index, 'what': f'{kind} at index {index} of a text of length {len(text)}: {what}'}


def validate_translation(tier, rng, lean):
    """T2 validation: the translated Lean definitions against the real functions"""
    mod, _ = realrun.compile_grammar('start = "a"')
    drv = Driver(exe=XDRIVER)
    n = 1500 if tier == 'quick' else 12000
    bad = []
    for t in range(n):
        nl = rng.choice([0, 0, 1, 2, 5])
        L = rng.choice([0, 1, 3, 10, 50, 95, 96, 97, 120, 200, 300])
        chars = [rng.choice('abcxyz ') for _ in range(L)]
        for _ in range(nl):
            if chars:
                chars[rng.randrange(len(chars))] = '\n'
        text = ''.join(chars)
        if not text:
            continue
        pos = rng.randrange(len(text))
        line_col_real = mod._get_line_and_column(text, pos)
        cs = ' '.join(str(c) for c in codes(text))
        lc = drv.ask(f'(linecol {pos} {cs})')
        if lc != f'{line_col_real[0]} {line_col_real[1]}':
            bad.append({'key': f'linecol|{pos}|{text}', 'kind': 'model', 'what': f'translated _get_line_and_column gives {lc}, real {line_col_real} at {pos} in {text[:40]!r}'})
            continue
        # outside the text: the real function raises IndexError at len and beyond (Tie.linecol_defined_iff: `none`),
        # and Python's negative indices count from the end - the translation must agree there too
        for q in (len(text), len(text) + rng.randint(1, 5), -rng.randint(1, len(text)), -len(text) - rng.randint(1, 3)):
            try:
                r = mod._get_line_and_column(text, q)
                want = f'{r[0]} {r[1]}'
            except IndexError:
                want = 'none'
            got = drv.ask(f'(linecol {q} {cs})')
            if got != want:
                bad.append({'key': f'linecol|{q}|{text}', 'kind': 'model', 'what': f'translated _get_line_and_column gives {got}, real {want} at {q} in a text of length {len(text)} {text[:40]!r}'})
        col = line_col_real[1]
        # also off-spec columns: the translation must agree on every argument, not only consistent ones
        for c in (col, rng.randint(1, 130)):
            real = mod._extract_excerpt(text, pos, c)
            model = drv.ask(f'(excerpt {pos} {c} {cs})')
            model_s = ''.join(chr(int(x)) for x in model.split()) if model else ''
            if model_s != real:
                bad.append({'key': f'excerpt|{pos}|{c}|{text}', 'kind': 'model',
                            'what': f'translated _extract_excerpt differs from the real one at pos={pos} col={c} len={len(text)}: {model_s[:60]!r} vs {real[:60]!r}'})
    drv.close()
    return n, bad


def failpos_correspondence(tier, seed, lean):
    """failure indices of the implementation vs the failing _pos of the code model, and inside [pos, len]"""
    from extract_flags import bits_of
    if not lean.regen.get('flags', {}).get('ok'):
        return 0, 0, []
    bits = bits_of(lean.regen['flags']['entries'])
    jobs = c01.build_jobs('quick', seed)
    rng = random.Random(seed)
    if tier == 'quick':
        # lookahead is where a failure can be located away from where the attempt began: those grammars are never sampled away
        keep = [j for j in jobs if {'not', 'exp'} & set(j['meta'].get('kinds', []))]
        rest = [j for j in jobs if not ({'not', 'exp'} & set(j['meta'].get('kinds', [])))]
        jobs = keep[:1500] + rng.sample(rest, min(len(rest), 2000))
    for j in jobs:
        j['cmp_failpos'] = True
    res = corerun.run_jobs(jobs, bits)
    cmp_ = sum(r['failpos_cmp'] for r in res)
    bad = []
    for r in res:
        for m in r['mismatches']:
            if m['kind'] == 'failpos':
                bad.append({**m, 'key': f'failpos|{r["text"]}|{m["input"]}', 'kind': 'model', 'grammar': r['text'],
                            'what': f'ParseError index {m["real"]} differs from the code model {m["gen"]} on {m["input"]!r} [{r["text"].strip()}]'})
    return cmp_, len(res), bad


MESSAGE_FUNCTIONS = ('_extract_excerpt', '_caret_at', '_get_line_and_column', '_map_index_to_line_and_column')


def shipped_parser(tier):
    """sourcer/parser.py - the parser of grammar descriptions - is a generated module too and carries a copy of the runtime:
    (a) its message functions are the ones of a freshly generated module (so Tie.excerpt_spec / Tie.linecol_spec, proved about the
    translated runtime text, are about them as well), (b) the messages it produces for malformed descriptions satisfy the
    property predicate, swept like the others over line length x column"""
    import ast
    import common
    bad = []
    n = 0
    mod, _ = realrun.compile_grammar('start = "a"', include_source=True)
    def funcs(src):
        return {f.name: ast.dump(f) for f in ast.parse(src).body if isinstance(f, ast.FunctionDef)}
    shipped = funcs(open(os.path.join(common.REPO, 'sourcer', 'parser.py')).read())
    fresh = funcs(mod._source_code)
    differ = [f for f in MESSAGE_FUNCTIONS if shipped.get(f) != fresh.get(f)]
    if differ:
        bad.append({'key': 'shipped-parser-functions', 'kind': 'model',
                    'what': f'the message functions of sourcer/parser.py differ from those of a freshly generated module: {differ} '
                            f'(the excerpt theorems are about the runtime text of the generator)'})
    from sourcer import parser as P
    ks = range(0, 100, 7) if tier == 'quick' else range(0, 100)
    for k in ks:
        for m in (0, 1, 30, 36, 37, 38, 39, 40, 41, 42, 43, 44, 45, 50, 90, 95):
            for tail in ('', '\nother = "x"\n'):
                text = 'start = "' + 'a' * k + '" @ "' + 'b' * m + '"' + tail
                index = text.index('@')
                n += 1
                try:
                    P.parse(text)
                    bad.append(_viol('PartialParseError', text, index, 'the shipped parser accepted a description with a stray @'))
                    continue
                except Exception as exc:      # noqa: BLE001
                    kind = type(exc).__name__
                    pos = getattr(exc, 'last_position', None) or getattr(exc, 'position', None)
                    if pos is None or pos.index != index:
                        bad.append(_viol(kind, text, index, f'the shipped parser reports {pos} for a stray @ at {index}'))
                        continue
                    line, col = expected_linecol(text, index)
                    if (pos.line, pos.column) != (line, col):
                        bad.append(_viol(kind, text, index, f'line/column {(pos.line, pos.column)} instead of {(line, col)}'))
                        continue
                    msg = check_message(kind, str(exc), text, index, line, col)
                    if msg:
                        bad.append(_viol(kind, text, index, 'shipped description parser: ' + msg))
    return n, bad


def run(tier, seed, lean):
    rng = random.Random(seed)
    n1, nontrivial, samples, bad1 = sweep(tier)
    n0, bad0 = shipped_parser(tier)
    n1 += n0
    bad1 = bad1 + bad0[:6]
    bad2 = []
    n2 = 0
    if 'Gen.Excerpt' not in lean.failed_modules and 'xdriver' not in lean.failed_modules:
        try:
            n2, bad2 = validate_translation(tier, rng, lean)
        except RuntimeError as exc:
            bad2 = [{'key': 'xdriver', 'kind': 'model', 'what': f'translated definitions could not be run: {exc}'}]
    n3, grammars3, bad3 = failpos_correspondence(tier, seed, lean)
    allbad = bad1 + bad2 + bad3
    cov = {
        'evaluations': n1 + n2 + n3,
        'distinct_nontrivial': nontrivial,
        'rule': ('(1) sweep on the implementation: line length 1..421 x error column over every regime boundary (+-2) and, for '
                 'short lines, every column x {only, first, middle, last line, last line + newline} x {ParseError, '
                 'PartialParseError}; the property predicate (index, line, column, caret under text[index], excerpt on one line) is '
                 'evaluated on every message; non-trivial = line long enough to be abbreviated (>= 96). (2) validation of translator '
                 'T2: translated Lean definitions vs the real functions on random (text, pos, col). (3) failure indices of the '
                 'implementation vs the failing _pos of the code model on the C01 grammar set.'),
        'samples': samples or [{'note': 'no sample collected'}],
        'messages_checked': n1,
        'translation_validation_cases': n2,
        'failure_positions_compared': n3,
        'traces_validated_against_impl': n2 + n3,
    }
    return {'coverage': cov, 'violations': [b for b in allbad if b['kind'] == 'spec'],
            'broken': [b for b in allbad if b['kind'] == 'model']}


def replay(case, lean):
    bad = []
    if 'text' in case and 'index' in case:
        kind = case.get('error_kind', 'ParseError')
        mod, _ = realrun.compile_grammar(GRAMMAR_PE if kind == 'ParseError' else GRAMMAR_PP)
        text, index = case['text'], case['index']
        try:
            mod.parse(text)
        except (mod.ParseError, mod.PartialParseError) as exc:
            pos = getattr(exc, 'position', None) or exc.last_position
            eline, ecol = expected_linecol(text, index)
            if pos.index != index or (pos.line, pos.column) != (eline, ecol):
                bad.append({**case, 'what': f'position {tuple(pos)}'})
            else:
                c = check_message(type(exc).__name__, str(exc), text, index, eline, ecol)
                if c:
                    bad.append({**case, 'what': c})
    return {'coverage': {}, 'violations': bad, 'broken': []}
