"""C20 - user-chosen names cannot collide with generated code."""
import ast
import builtins
import keyword
import random
import re

import realrun
import corerun

ID = 'C20'
THEOREMS = [
    'Sourcer.C20_renaming_changes_only_names',
    'Sourcer.C20_injective_renaming_keeps_classes_apart',
    'Sourcer.C01_codegen_refines_peg',
    'Sourcer.C10_span_exact',
]
TIE_MODULES = ['Tie.Flags']
ASSUMPTIONS = [
    'identifiers of generated Python (temporaries, helpers, builtins read by the runtime) do not exist in the Lean model, whose rules are indices and whose '
    'class/field names are opaque labels: renaming is the identity on the model by construction; the adversarial name lists are derived on every run from the '
    'emitted source and from the runtime text of the working tree',
]

DESC_KEYWORDS = {'ignore', 'ignored', 'class', 'let', 'in', 'where', 'override', 'grammar', 'extends', 'between', 'pass', 'requires', 'super'}
API = {'zz9', 'start', 'Start', 'START', 'left', 'right', 'operator', 'parse', 'Infix', 'Prefix', 'Postfix', 'ParseError', 'PartialParseError', 'InputError', 'ParsedObject', 'ParsingRule',
       'visit', 'traverse', 'transform'}

# slots: R* rules, C* classes, T* templates (parameterised rules), f* fields, p* parameters, v* let variables
FAMILIES = [
    ('''start = {R1} /? ";"
{R1} = {C1} | (let {v1} = /[0-9]+/ in [`{v1}`, {R2}?])
class {C1} {{
    {f1}: {R2}
    let {f2}: "="
    {f3}: {T1}({f1}) | {R2} | {C2}
}}
class {C2} {{ {f4}: "(" >> {R1} << ")"; {f5}: ("!" | 0x21)? }}
{R2} = /[a-z]+/
{T1}({p1}) = "<" >> (/[a-z]+/ where `lambda zz9: zz9 == {p1}`) << ">"
ignore / +/
''', ['ab=cd', 'ab=<ab>', 'ab=<cd>', '12 ab; 7', 'x=(y=z)!;3', 'x=(y=<y>); q=w', 'ab=', '', 'x=(12 y)']),
    ('''start = ({T1}({R1}, ",") << "!") | {T1}({R1}, ",") | {R2}
{T1}({p1}, {p2}) = let {v1} = {p1} in [`{v1}`, ({p2} >> {p1})*] where `lambda {v2}: len({v2}[1]) < 3`
{R1} = /[a-z]/ | {C1}
class {C1} {{ {f1}: /[0-9]/; {f2}: {T2}({f1})? }}
{T2}({p3}) = "=" >> (/[0-9]/ where `lambda zz9: zz9 == {p3}`)
{R2} = ("x" | "y"){{2,3}} |> `lambda {v3}: ''.join({v3})`
''', ['a,b', 'a', '1=1,2', '1=2', 'a,b,c,d', 'xyx', 'xy', '3,a,4=4', '', 'a,b!', 'a!']),
    ('''start = {R1} between {{
    prefix: "-"
    left: "+", "-"
}}
{R1} = {C1} | "(" >> start << ")"
class {C1} {{ {f1}: /[0-9]+/ |> `int`; {f2}: ("." >> /[0-9]+/)? }}
''', ['1+2', '-1.5+(2-3)', '1+', '(1', '4.25', '']),
    ('''start = {C1}("id", "no") // ","
class {C1}({p1}, {p2}) {{
    {f1}: {R1} where `lambda zz9: zz9 == {p1}`
    {f2}: "=" >> {R1} where `lambda zz9: zz9 != {p2}`
}}
{R1} = /[a-z]+/
''', ['id=a', 'id=a,id=b', 'id=a,key=b', 'id=no', 'key=a', '', ('C1', ('id', 'no'), 'id=a'), ('C1', ('key', 'no'), 'key=a'),
      ('C1', ('key', 'no'), 'id=a'), ('C1', ('id', 'a'), 'id=a'), ('C1', ('id', 'no'), 'id=a,'), ('C1', ('id', 'no'), 'id=')]),
    # a derived grammar: the module of a child has code of its own (context tables, inherited entries)
    ('''grammar <G>a
start = {R1}+
{R1} = /[a-z]/
{T1}({p1}) = "[" >> {p1} << "]"
ignore / +/
----
grammar <G>b extends <G>a
{R2} = /[0-9]+/
class {C1} {{ {f1}: {R2}; {f2}: ("." >> {R2})? }}
override {R1} = {C1} | super.{R1}
----
grammar <G>c extends <G>b
{R3} = {T1}({R2} // ",")
override start = ({R3} | {R1})+
''', ['a', 'a 1 b', '12.5 x', '1.', '', 'a.1', '[1,2] a', '[1', '[] 3']),
    # operator tables with postfix rows next to parameters and fields
    ('''start = ({T1}(/[0-9]/) << ";") | {C1}
{T1}({p1}) = {p1} between {{
    postfix: "!"
    left: "+"
}}
class {C1} {{
    {f1}: /[a-z]/
    {f2}: "=" >> (/[0-9]/ between {{
        postfix: "!"
        prefix: "-"
    }})
}}
''', ['1!+2;', '1+2;', '1!;', 'x=1!', 'x=-1', 'x=1', '1!+', '']),
    # an expression long enough for anything that abbreviates messages to show
    ('''start = {R1} << ";"
{R1} = {R2} | {R3} | {C1} | "select" | "insert" | "update" | "delete" | "create table" | "drop table" | "alter table" | "create index" | "drop index" | "begin" | "commit" | "rollback" | "savepoint" | "release" | "vacuum" | "analyze"
{R2} = "explain"
{R3} = "pragma"
class {C1} {{ {f1}: "attach"; {f2}: /[a-z]+/ }}
ignore / +/
''', ['42;', '', 'select;', 'attach db;', 'attach 1', 'explain']),
    # a parameter that is called with arguments; fields and let variables next to it
    ('''start = {T1}({T2}, /[a-z]/) | {C1}
{T1}({p1}, {p2}) = [{p1}({p2}), {p1}("!")?]
{T2}({p3}) = "<" >> {p3}
class {C1} {{ {f1}: /[0-9]/; let {f2}: "="; {f3}: let {v1} = /[0-9]/ in `({f1}, {v1})` }}
''', ['<a<!', '<a', '1=2', '<a<', '', '1=']),
]

NEUTRAL = {'R1': 'Alpha', 'R2': 'Beta', 'R3': 'Gamma', 'C1': 'Kappa', 'C2': 'Lambda', 'T1': 'Tau', 'T2': 'Upsilon',
           'f1': 'first', 'f2': 'second', 'f3': 'third', 'f4': 'fourth', 'f5': 'fifth',
           'p1': 'pone', 'p2': 'ptwo', 'p3': 'pthree', 'v1': 'vone', 'v2': 'vtwo', 'v3': 'vthree'}


def slots_of(template):
    return sorted(set(re.findall(r'\{([RCTfpv]\d)\}', template)))


_uniq = [0]


def compile_parts(text, **kw):
    """a template can be a chain of grammars separated by '----' lines; {G} is a grammar-name prefix unique per compilation"""
    _uniq[0] += 1
    text = text.replace('<G>', f'c20g{_uniq[0]}x')
    mod = None
    for part in text.split('\n----\n'):
        mod, _ = realrun.compile_grammar(part, **kw)
    return mod, None


def instantiate(template, names):
    out = template
    for s in slots_of(template):
        out = out.replace('{' + s + '}', names[s])
    return out.replace('{{', '{').replace('}}', '}')


def _listed_finding_classes():
    import common
    out = set()
    for f in common.load_known_findings().get('open', []):
        fc = f.get('match', {}).get('finding_class')
        out |= set(fc if isinstance(fc, list) else [fc])
    return out


LISTED = _listed_finding_classes()


def runtime_builtins():
    """builtins that the runtime text and the generated code of the working tree read"""
    from sourcer import translator as t
    src = (t._program_setup + t._main_template).replace('${ctx}', '').replace('$CALL', '3').replace('$start', 'start')
    names = set()
    for n in ast.walk(ast.parse(src)):
        if isinstance(n, ast.Name) and hasattr(builtins, n.id):
            names.add(n.id)
    return names


def assigned_in_generated_functions(source):
    """names that the code generated for rules (not the runtime text) assigns: on a healthy tree all of them are reserved
    (leading underscore) or the user's own; anything else is a temporary that a user name could collide with"""
    out = set()
    for fn in ast.walk(ast.parse(source)):
        if isinstance(fn, ast.FunctionDef) and fn.name.startswith(('_try_', '_function_', '_parse_')):
            for n in ast.walk(fn):
                if isinstance(n, ast.Name) and isinstance(n.ctx, ast.Store):
                    out.add(n.id)
    return out


def builtins_read_in_generated_functions(source):
    """builtins that the code generated for rules reads by bare name: a field, parameter or let variable of that name is a
    local of the same function"""
    out = set()
    for fn in ast.walk(ast.parse(source)):
        if isinstance(fn, ast.FunctionDef) and fn.name.startswith(('_try_', '_function_')):
            for n in ast.walk(fn):
                if isinstance(n, ast.Name) and isinstance(n.ctx, ast.Load) and hasattr(builtins, n.id):
                    out.add(n.id)
    return out


def emitted_parameters(source):
    return {n.arg for n in ast.walk(ast.parse(source)) if isinstance(n, ast.arg)}


def emitted_identifiers(source):
    names = set()
    for n in ast.walk(ast.parse(source)):
        if isinstance(n, ast.Name):
            names.add(n.id)
        elif isinstance(n, ast.arg):
            names.add(n.arg)
        elif isinstance(n, (ast.FunctionDef, ast.ClassDef)):
            names.add(n.name)
    return names


def show(v, inverse):
    """canonical print of a result with class and field names mapped back through the renaming"""
    if hasattr(v, '_fields') and hasattr(v, '_metadata'):
        info = v._metadata.position_info
        sp = ''
        if info is not None:
            sp = f' (span {info.start.index} {info.end.index})'
        cls = type(v).__name__
        if cls in ('Infix', 'Prefix', 'Postfix'):
            fs = ''.join(f' ({f} {show(getattr(v, f), inverse)})' for f in v._fields)
        else:
            fs = ''.join(f' ({inverse.get(f, f)} {show(getattr(v, f), inverse)})' for f in v._fields)
            cls = inverse.get(cls, cls)
        return f'(o {cls}{sp}{fs})'
    if isinstance(v, list):
        return '(l' + ''.join(' ' + show(x, inverse) for x in v) + ')'
    if isinstance(v, tuple):
        return '(t' + ''.join(' ' + show(x, inverse) for x in v) + ')'
    return realrun.pval(v)


def protocol(v, inverse):
    """what the objects of a result do when used as values: hashing, equality with a rebuilt copy, _asdict, repr"""
    out = []
    stack = [v]
    seen = 0
    while stack and seen < 6:
        x = stack.pop()
        if isinstance(x, (list, tuple)) and not hasattr(x, '_fields'):
            stack.extend(x)
        elif hasattr(x, '_fields') and hasattr(x, '_metadata'):
            seen += 1
            try:
                h1 = hash(x)
                y = x._replace()
                z = x._replace(**x._asdict())                    # every field handed over by keyword
                ok = (y == x) and (hash(y) == h1) and (len({x, y}) == 1) and (z == x)
                keys = tuple(inverse.get(k, k) for k in x._asdict())
                repr(x)
                out.append(('ok' if ok else 'inconsistent', keys))
            except Exception as exc:      # noqa: BLE001
                out.append(('raises', type(exc).__name__))
            stack.extend(getattr(x, f) for f in x._fields)
    return tuple(out)


def outcome(mod, text, inverse, names=None):
    if isinstance(text, tuple):
        # the entry point of a parameterised class: C.parse(args)(text)
        slot, args, text = text
        try:
            entry = getattr(mod, names[slot]).parse(*args)
        except Exception as exc:      # noqa: BLE001
            return ('X-entry', type(exc).__name__)
    else:
        entry = mod.parse
    r, raw = realrun.run_real_api(entry, text, 0, True, limit=2.0, _retry=False)   # CPU-time limit; hangs here are the builtin-shadowing findings
    if r[0] == 'V':
        return ('V', show(raw, inverse), protocol(raw, inverse))
    if r[0] == 'P':
        return ('P', show(raw.partial_result, inverse), r[2])
    if r[0] == 'E' and MESSAGES[0]:
        # the text of the error with the new names mapped back (only for renamings into words that occur nowhere else)
        msg = str(raw)
        for new, old in inverse.items():
            msg = re.sub(r'(?<![A-Za-z0-9_])' + re.escape(new) + r'(?![A-Za-z0-9_])', old, msg)
        return r + (msg,)
    return r


MESSAGES = [False]
MESSAGE_SAFE = {'snake_case_name', 'CamelCase'}


def run(tier, seed, lean):
    rng = random.Random(seed)
    violations, broken = [], []
    evals = 0
    nontrivial = 0
    samples = []
    rt_builtins = runtime_builtins()
    from sourcer import expressions as ex
    ctor_names = {n for n in dir(ex) if n[:1].isupper() and callable(getattr(ex, n)) and n not in ('CALL', 'POS', 'TEXT')}
    for fi, (template, inputs) in enumerate(FAMILIES):
        slots = slots_of(template)
        # names that the family's own inline Python reads are the user's business, not the generator's
        own_python = set(re.findall(r'[A-Za-z_]\w*', ' '.join(re.findall(r'`([^`]*)`', template))))
        base_names = {s: NEUTRAL[s] for s in slots}
        base_mod, _ = compile_parts(instantiate(template, base_names), include_source=True)
        base = [outcome(base_mod, t, {}, base_names) for t in inputs]
        MESSAGES[0] = True
        base_msgs = [outcome(base_mod, t, {}, base_names) for t in inputs]
        MESSAGES[0] = False
        if len({b[0] for b in base}) >= 2:
            nontrivial += 1
        ids = emitted_identifiers(base_mod._source_code)
        # adversarial names, derived from what this module really contains
        temp_like = set()
        for n in ids:
            m = re.fullmatch(r'_?([a-z_]*[a-z])(\d+)', n)
            if m and m.group(1):
                for k in (1, 2, 3, int(m.group(2)), int(m.group(2)) + 1):
                    temp_like.add(f'{m.group(1).lstrip("_")}{k}')
        runtime_locals = {n for n in ids if re.fullmatch(r'[a-z][a-z_]*', n)} - set(base_names.values())
        stripped = set()
        for n in ids:
            m = re.fullmatch(r'_(?:try|parse|raise_error|matcher|function|inherited|super)_?(.+)', n)
            if m and not m.group(1).startswith('_') and not m.group(1).isdigit():
                stripped.add(m.group(1))
        pools = {
            'generated function name without its prefix': stripped | {'ignored', 'anonymous_0_0', 'try_start'},
            'random identifier': {'q7x', 'Zed', 'snake_case_name', 'CamelCase', 'x', 'l1', 'O0', 'aA9'},
            'temporary-like': temp_like,
            'name used by generated code or runtime': {n for n in runtime_locals if not hasattr(builtins, n)} | (assigned_in_generated_functions(base_mod._source_code) - set(base_names.values())),
            'builtin read by the runtime': set(rt_builtins) | {n for n in ids if hasattr(builtins, n)} | {'len', 'slice', 'list', 'id', 'object', 'dict', 'type'},
            'expression constructor': set(ctor_names),
            # names that mean something to the translator or to the description language, but are ordinary identifiers
            'submodule or helper of the expressions package': {n for n in dir(ex) if not n[:1].isupper()},
            'identifier that begins with a keyword of the description language': {'letter', 'lets', 'let_x', 'classy', 'ignoredx', 'overrides', 'passx',
                                                                                 'requiresx', 'whereabouts', 'inner', 'asx', 'extendsx', 'grammars', 'started', 'startx',
                                                                                 'Nonesuch', 'Falsey', 'Trueish', 'None_x'},
        }
        for pool_name, pool in pools.items():
            cands = sorted(n for n in pool if n.isidentifier() and not keyword.iskeyword(n) and not n.startswith('_') and n not in API and n not in own_python)
            always = emitted_parameters(base_mod._source_code) | (assigned_in_generated_functions(base_mod._source_code) - set(base_names.values()))
            if pool_name == 'builtin read by the runtime':
                # a builtin that the runtime reads and that no recorded finding lists is either harmless or new: never sampled away
                always = always | {n for n in cands if not any(f'runtime-builtin:{k}:{n}' in LISTED for k in 'RCTfpv')}
            local_builtins = builtins_read_in_generated_functions(base_mod._source_code) if pool_name == 'builtin read by the runtime' else set()
            if tier == 'quick' and len(cands) > 14:
                cands = sorted(set(rng.sample(cands, 14)) | (set(cands) & always) | (set(cands) & local_builtins))
            for name in cands:
                for slot in slots:
                    if name in base_names.values():
                        continue
                    if name in DESC_KEYWORDS and not (name == 'ignored' and slot[0] in 'Cf'):
                        continue      # words of the description language ('ignored' can still name a class or a field)
                    unlisted_local = name in local_builtins and slot[0] in 'fpv' and f'runtime-builtin:{slot[0]}:{name}' not in LISTED
                    if tier == 'quick' and name not in always and not unlisted_local and pool_name != 'generated function name without its prefix' and rng.random() < 0.45:
                        continue
                    names = dict(base_names)
                    names[slot] = name
                    inverse = {name: base_names[slot]}
                    evals += 1
                    klass = None
                    if pool_name == 'builtin read by the runtime' or hasattr(builtins, name):
                        klass = f'runtime-builtin:{slot[0]}:{name}'
                    elif pool_name.startswith('identifier that begins with a keyword'):
                        kw = max((k for k in DESC_KEYWORDS | {'start', 'None', 'False', 'True'} if name.startswith(k)), key=len, default='none')
                        klass = f'keyword-prefix:{kw}:{slot[0]}'
                    elif pool_name == 'expression constructor' and slot[0] in 'RCT':
                        klass = f'constructor-name:{name}'
                    try:
                        mod, _ = compile_parts(instantiate(template, names))
                        got = [outcome(mod, t, inverse, names) for t in inputs]
                        if name in MESSAGE_SAFE and got == base:
                            MESSAGES[0] = True
                            gm = [outcome(mod, t, inverse, names) for t in inputs]
                            MESSAGES[0] = False
                            if gm != base_msgs:
                                k = next(i for i in range(len(gm)) if gm[i] != base_msgs[i])
                                violations.append({'key': f'{fi}|{slot}|{name}|message', 'sig': f'message|{slot[0]}', 'kind': 'spec', 'family': fi, 'slot': slot, 'name': name,
                                                   'finding_class': 'none',
                                                   'what': f'renaming {base_names[slot]!r} to {name!r} changes the text of the error on {inputs[k]!r} in more than the name: '
                                                           f'{str(gm[k][-1])[-160:]!r} instead of {str(base_msgs[k][-1])[-160:]!r}'})
                    except Exception as exc:      # noqa: BLE001
                        got = [('X-compile', type(exc).__name__)]
                    if got != base:
                        k = next((i for i in range(min(len(got), len(base))) if got[i] != base[i]), 0)
                        violations.append({'key': f'{fi}|{slot}|{name}', 'sig': f'{pool_name}|{slot[0]}|{name}', 'kind': 'spec',
                                           'family': fi, 'slot': slot, 'name': name, 'finding_class': klass or 'none',
                                           'what': f'renaming the {dict(R="rule", C="class", T="template", f="field", p="parameter", v="let variable")[slot[0]]} '
                                                   f'{base_names[slot]!r} to {name!r} ({pool_name}) changes the behaviour on {inputs[k] if k < len(inputs) else "?"!r}: '
                                                   f'{str(got[k] if k < len(got) else got)[:110]} instead of {str(base[k])[:110]}'})
        # several slots renamed at once, injectively
        all_names = sorted(set().union(*[p for k, p in pools.items() if k in ('random identifier', 'temporary-like', 'name used by generated code or runtime')]))
        all_names = [n for n in all_names if n.isidentifier() and not keyword.iskeyword(n) and not n.startswith('_') and n not in API and n not in own_python and not hasattr(builtins, n)
                     and n not in ctor_names]
        for _ in range(15 if tier == 'quick' else 150):
            chosen = rng.sample(all_names, len(slots))
            names = dict(zip(slots, chosen))
            inverse = {v: base_names[k] for k, v in names.items()}
            evals += 1
            try:
                mod, _ = compile_parts(instantiate(template, names))
                got = [outcome(mod, t, inverse, names) for t in inputs]
            except Exception as exc:      # noqa: BLE001
                got = [('X-compile', type(exc).__name__, str(exc)[:60])]
            if got != base:
                k = next((i for i in range(min(len(got), len(base))) if got[i] != base[i]), 0)
                violations.append({'key': f'{fi}|multi|{sorted(names.items())}', 'sig': f'multi|{fi}', 'kind': 'spec', 'finding_class': 'none',
                                   'what': f'the injective renaming {names} changes the behaviour on {inputs[k] if k < len(inputs) else "?"!r}: '
                                           f'{str(got[k] if k < len(got) else got)[:110]} instead of {str(base[k])[:110]}'})
        samples.append({'family': fi, 'slots': slots, 'temporary_like_names': sorted(temp_like)[:12]})
    cov = {
        'evaluations': evals,
        'distinct_nontrivial': nontrivial + evals,
        'rule': ('grammar families with rules, classes, templates, fields, parameters and let variables; every slot is renamed (one at a time and all at '
                 'once, injectively) into: random identifiers, names shaped like the temporaries the emitted module really uses (<base><k>), names of '
                 'locals/parameters of generated and runtime functions, builtins the runtime text reads, names of the expression constructors; '
                 'values (with names mapped back), positions and error classes must equal those of the neutral naming. The name lists are derived '
                 'from the emitted source and the runtime text on every run. distinct_nontrivial counts renamings (each is a distinct case).'),
        'samples': samples,
        'builtins_read_by_runtime': sorted(rt_builtins),
    }
    return {'coverage': cov, 'violations': violations, 'broken': broken}


def replay(case, lean):
    out = run('quick', case.get('seed', 0), lean)
    out['violations'] = [v for v in out['violations'] if v.get('sig') == case.get('sig')][:3]
    return out
