"""C13 - inheritance: overrides are late-bound, super is the parent, parent untouched."""
import multiprocessing as mp
import os
import random

import gengram as G
from gengram import *       # noqa: F401,F403
import corerun
from props import c01, c04

ID = 'C13'
THEOREMS = [
    'Sourcer.C13_late_binding',
    'Sourcer.C13_super',
    'Sourcer.C13_flattening',
    'Sourcer.C13_flattened_name',
    'Sourcer.C13_rule_numbering_is_immaterial',
    'Sourcer.C01_codegen_refines_peg',
    'Tie.implFlags_sound',
]
TIE_MODULES = ['Tie.Flags']
ASSUMPTIONS = [
    'sys.modules / importlib have no model; the flattening of a chain (overrides win, super.R = private copy of the next definition up the chain, ignore '
    'declarations of all levels) is computed by the harness, compiled by the real code and decided by the Lean core model',
]

NAMES = ['R', 'S', 'T', 'U']


def SUPER(n):
    return ('super', n)


def render(e):
    if e[0] == 'super':
        return f'super.{e[1]}'
    if e[0] == 'ref':
        return e[1]
    return None


def render_expr(e):
    """like gengram.render but with super references"""
    k = e[0]
    if k == 'super':
        return f'super.{e[1]}'
    if k in ('str', 'ci', 'rx', 'byte', 'ref', 'bt', 'fail', 'py'):
        return G.render(e)
    r = render_expr
    if k == 'seq':
        return '[' + ', '.join(r(x) for x in e[1]) + ']'
    if k == 'dis':
        return f'({r(e[2])} {">>" if e[1] else "<<"} {r(e[3])})'
    if k == 'alt':
        return '(' + ' | '.join(r(x) for x in e[1]) + ')'
    if k == 'opt':
        return f'({r(e[1])})?'
    if k == 'rep':
        return f'({r(e[3])})*' if e[1] == 0 else f'({r(e[3])})+'
    raise ValueError(k)


def subst(e, f):
    """map over references"""
    k = e[0]
    if k in ('ref', 'super'):
        return f(e)
    if k in ('seq', 'alt'):
        return (k, tuple(subst(x, f) for x in e[1]))
    if k == 'dis':
        return ('dis', e[1], subst(e[2], f), subst(e[3], f))
    if k == 'opt':
        return ('opt', subst(e[1], f))
    if k == 'rep':
        return ('rep', e[1], e[2], subst(e[3], f))
    return e


def rand_body(rng, avail, supers, depth=2):
    """an expression over literals, references to `avail` names and super references"""
    if depth <= 0 or rng.random() < 0.3:
        c = rng.random()
        if c < 0.35 and avail:
            return REF(rng.choice(avail))
        if c < 0.5 and supers:
            return SUPER(rng.choice(supers))
        return rng.choice([S('a'), S('b'), S('ab'), RX('a+')])
    c = rng.random()
    a, b = rand_body(rng, avail, supers, depth - 1), rand_body(rng, avail, supers, depth - 1)
    if c < 0.3:
        return SEQ(a, b)
    if c < 0.5:
        return ALT(a, b)
    if c < 0.65:
        return RIGHT(a, b)
    if c < 0.8:
        return SEQ(a, OPT(b))
    return SEQ(S(rng.choice('ab')), REP(0, None, RIGHT(S(','), a)))


def make_chain(rng, n_levels):
    """levels[0] = base ... ; each level: {'rules': [(name, body)], 'ignores': [(name|None, expr)], 'has_start': bool}"""
    levels = []
    defined = []                # names defined so far (by some level)
    for li in range(n_levels):
        rules = []
        if li == 0:
            own = ['start'] + rng.sample(NAMES, rng.randint(1, 3))
        else:
            own = []
            if rng.random() < 0.3:
                own.append('start')
            own += rng.sample(defined, rng.randint(0, min(2, len(defined))))          # overrides
            own += [n for n in rng.sample(NAMES, rng.randint(0, 2)) if n not in defined]  # new rules
            own = list(dict.fromkeys(own))
            if not own:
                own = [rng.choice(NAMES)]
        avail_after = list(dict.fromkeys(defined + own))
        for name in own:
            # references may go to any rule known at this level except (directly) to itself; to avoid left recursion
            # a rule only refers to rules that come later in a fixed global order
            order = ['start'] + NAMES
            later = [n for n in avail_after if order.index(n) > order.index(name)]
            supers = [name] if name in defined else []
            supers += [n for n in defined if order.index(n) > order.index(name) and rng.random() < 0.3]
            body = rand_body(rng, later, supers)
            rules.append((name, body))
        ignores = []
        # what an ignore declared only in a derived grammar does to *inherited* rules is not specified by the
        # property (those rules were compiled without skipping); derived levels add patterns only to a base that has some
        base_has = li == 0 or bool(levels[0]['ignores'])
        if base_has and rng.random() < (0.35 if li == 0 else 0.4):
            ignores.append(rng.choice([(None, RX(' +')), ('Sp', S(' ')), (None, S(' '))]) if li == 0 or rng.random() < 0.5
                           else rng.choice([(None, S('#')), (f'Cm{li}', RX('#+'))]))
        levels.append({'rules': rules, 'ignores': ignores})
        defined = avail_after
    return levels


def level_text(level, name, parent):
    head = f'grammar {name}' + (f' extends {parent}' if parent else '')
    lines = [head]
    for n, b in level['rules']:
        lines.append(f'{n} = {render_expr(b)}')
    for n, e in level['ignores']:
        lines.append(f'ignore {n} = {G.render(e)}' if n else f'ignore {G.render(e)}')
    return '\n'.join(lines) + '\n'


def flatten(levels, entry, want_rules=False):
    """the specification: one grammar equivalent to parsing through level `entry`"""
    out = {}
    todo = []

    def definer(name, top):
        for li in range(top, -1, -1):
            for n, b in levels[li]['rules']:
                if n == name:
                    return li, b
        return None

    def private(name, li):
        return f'{name}Sup{li}'

    def conv(body, li):
        def f(r):
            if r[0] == 'ref':
                return r                      # late bound: resolved in the entry module's table
            d = definer(r[1], li - 1)         # super.X written at level li: nearest definition above li
            if d is None:
                return ('fail',)
            pname = private(r[1], d[0])
            if pname not in out:
                out[pname] = None
                todo.append((pname, d[1], d[0]))
            return REF(pname)
        return subst(body, f)

    names = []
    for li in range(entry, -1, -1):
        for n, _ in levels[li]['rules']:
            if n not in names:
                names.append(n)
    order = ['start'] + NAMES
    names.sort(key=order.index)
    for n in names:
        li, body = definer(n, entry)
        out[n] = conv(body, li)
    while todo:
        pname, body, li = todo.pop()
        out[pname] = conv(body, li)
    if want_rules:
        return out
    ignores = []
    for li in range(entry, -1, -1):
        ignores += levels[li]['ignores']
    lines = [f'{n} = {render_expr(b)}' for n, b in out.items()]
    k = 0
    for n, e in ignores:
        k += 1
        lines.append(f'ignore Ig{k} = {G.render(e)}')
    return '\n'.join(lines) + '\n'


def _split_top(text):
    out, depth, cur = [], 0, ''
    for ch in text:
        if ch == '(':
            depth += 1
        if depth == 0 and ch == ' ':
            if cur:
                out.append(cur)
            cur = ''
            continue
        cur += ch
        if ch == ')':
            depth -= 1
    if cur:
        out.append(cur)
    return out


def flatten_tie(levels, entry, drv):
    """the flattening this module computes against `Chain.flatProg`, the Lean construction that C13_flattening is about:
    every rule of the harness's flattened grammar must be the rule at the corresponding index of the Lean one"""
    import realrun
    order = ['start'] + NAMES
    N = len(order)
    L = entry + 1
    # one index space for the request (plain name k, super.k = N + k) and one for the answer (name k, private copy of the
    # definition of k at Lean level l = N + l * N + k; Lean level 0 is the grammar entered, i.e. harness level `entry`)
    req_names = order + [f'__super_{n}' for n in order]
    flat_names = order + [f'{n}Sup{entry - l}' for l in range(L) for n in order] + ['__dead']
    tw = realrun.TupleWire(req_names)
    unsup = lambda b: subst(b, lambda r: REF(f'__super_{r[1]}') if r[0] == 'super' else r)       # noqa: E731
    lvls = []
    for l in range(L):
        defs = ' '.join(f'({order.index(n)} {tw.expr(unsup(b))})' for n, b in levels[entry - l]['rules'])
        lvls.append(f'(lvl {defs})')
    reply = drv.ask(f'(flatten (n {N}) (levels {" ".join(lvls)}))')
    if reply.startswith('error'):
        return f'driver: {reply}'
    lean_rules = _split_top(reply[len('(rules'):-1])
    dead = f'(ref {len(flat_names) - 1})'
    lean_rules = [r.replace(dead, 'fail') for r in lean_rules]       # `super.k` with no definition above: a rule that fails
    tw2 = realrun.TupleWire(flat_names)
    tw2.rx, tw2.rx_index = tw.rx, getattr(tw, 'rx_index', None)          # the same numbering of regular expressions
    mine = flatten(levels, entry, want_rules=True)
    for name, body in mine.items():
        if name not in flat_names:
            return f'the flattening has a rule {name} that the Lean construction has no place for'
        want = lean_rules[flat_names.index(name)]
        got = tw2.expr(body)
        if ''.join(got.split()) != ''.join(want.split()):
            return f'rule {name}: harness {got} Lean {want}'
    return None


_state = {}


def _init(bits):
    corerun._init(bits)


def _job(job):
    rr = corerun._state['rr']
    out = {'id': job['id'], 'mismatches': [], 'n': 0, 'chain': job['texts'], 'nontrivial': 0}
    mods = []
    try:
        for t in job['texts']:
            with rr.time_limit(20):
                mods.append(rr.compile_grammar(t)[0])
    except Exception as exc:      # noqa: BLE001
        out['mismatches'].append({'kind': 'spec', 'what': f'creating the chain raised {type(exc).__name__}: {str(exc)[:150]}', 'level': len(mods)})
        return out
    # parent untouched: the base observed before the children were created
    before = job['base_before']
    for li, mod in enumerate(mods):
        flat_text = job['flat'][li]
        try:
            flat, _ = rr.compile_grammar(flat_text)
        except Exception as exc:  # noqa: BLE001
            out['mismatches'].append({'kind': 'harness', 'what': f'flattened grammar does not compile: {exc}', 'level': li})
            continue
        kinds = set()
        for text in job['inputs']:
            a = rr.run_real_api(mod.parse, text, 0, True, limit=3.0)[0]
            b = rr.run_real_api(flat.parse, text, 0, True, limit=3.0)[0]
            out['n'] += 1
            kinds.add(a[0])
            if a != b and not (a[0] == b[0] == 'E'):
                out['mismatches'].append({'kind': 'spec', 'level': li, 'input': text, 'real': a, 'flat': b,
                                          'what': f'parsing {text!r} through level {li} of the chain gives {a}, the flattened grammar gives {b}'})
                break
        if len(kinds) >= 2:
            out['nontrivial'] += 1
        # B.<Rule>.parse: every rule available at this level - its own, overridden or inherited ones alike - is an entry
        # point of this module and sees this module's overrides
        for name in job['names'][li]:
            ra, rb = getattr(mod, name, None), getattr(flat, name, None)
            if ra is None or rb is None:
                out['mismatches'].append({'kind': 'spec', 'level': li, 'input': None, 'entry': name,
                                          'what': f'rule {name} is not available as an attribute of level {li} of the chain'})
                break
            hit = False
            for text in job['inputs'][::2]:
                a = rr.run_real_api(ra.parse, text, 0, True, limit=3.0)[0]
                b = rr.run_real_api(rb.parse, text, 0, True, limit=3.0)[0]
                out['n'] += 1
                if a != b and not (a[0] == b[0] == 'E'):
                    out['mismatches'].append({'kind': 'spec', 'level': li, 'input': text, 'real': a, 'flat': b, 'entry': name,
                                              'what': f'{name}.parse({text!r}) of level {li} of the chain gives {a}, the flattened grammar gives {b}'})
                    hit = True
                    break
            if hit:
                break
    # the base must still behave as it did before the children existed
    base = mods[0]
    for text, was in zip(job['inputs'], before or []):
        now = rr.run_real_api(base.parse, text, 0, True, limit=3.0)[0]
        if list(now) != list(was):
            out['mismatches'].append({'kind': 'spec', 'level': 0, 'input': text,
                                      'what': f'creating derived grammars changed the base: {text!r} gave {was}, now {now}'})
            break
    return out


def run(tier, seed, lean):
    from extract_flags import bits_of
    import realrun as rr
    bits = bits_of(lean.regen['flags']['entries']) if lean.regen.get('flags', {}).get('ok') else None
    rng = random.Random(seed)
    n = 220 if tier == 'quick' else 2200
    inputs = G.all_inputs('ab', 3) + ['a,a', 'ab,b,a', ' a b', 'a #b', ' ab', 'abab', 'a,b']
    jobs = []
    flat_jobs = []
    for i in range(n):
        levels = make_chain(rng, rng.choice([2, 2, 3, 3]))
        names = [f'c13_{seed}_{i}_l{li}' for li in range(len(levels))]
        if rng.random() < 0.15:
            names = [f'c13pkg{seed}.m{i}.l{li}' for li in range(len(levels))]      # dotted names
        texts = [level_text(lv, names[li], names[li - 1] if li else None) for li, lv in enumerate(levels)]
        flats = [flatten(levels, li) for li in range(len(levels))]
        avail, seen = [], []
        for lv in levels:
            seen = list(dict.fromkeys(seen + [n for n, _ in lv['rules']]))
            avail.append(list(seen))
        jobs.append({'id': i, 'texts': texts, 'flat': flats, 'inputs': inputs, 'base_before': None, 'names': avail, 'levels': levels})
        for li, ft in enumerate(flats):
            flat_jobs.append({'id': len(flat_jobs), 'text': ft, 'cases': [(0, t) for t in inputs], 'entries': ['__module__'], 'fuel': 300,
                              'meta': {'ctx': f'flattened level {li}'}})
    # the reference construction itself against the Lean function the flattening theorem is about
    from common import Driver
    drv = Driver()
    tie_bad = []
    tie_n = 0
    for j in jobs:
        for li in range(len(j['levels'])):
            tie_n += 1
            msg = flatten_tie(j['levels'], li, drv)
            if msg and len(tie_bad) < 5:
                tie_bad.append({'key': f'flatten-tie|{j["id"]}|{li}', 'kind': 'harness', 'grammar': ' || '.join(j['texts'])[:300],
                                'what': f'flattening computed by the harness differs from Chain.flatProg at entry level {li}: {msg[:300]}'})
    drv.close()
    results = corerun.pool_map(_job, jobs, _init, (bits,), chunksize=4)
    violations, broken = [], list(tie_bad)
    evals = sum(r['n'] for r in results)
    nontrivial = sum(r['nontrivial'] for r in results)
    samples = []
    for r in results:
        for m in r['mismatches']:
            item = {'key': f'{r["chain"]}|{m.get("level")}|{m.get("input")}', 'sig': '\n'.join(r['chain']), 'kind': 'spec',
                    'chain': r['chain'], **m}
            item['what'] = m['what'] + ' [chain: ' + ' || '.join(t.replace('\n', '; ') for t in r['chain'])[:300] + ']'
            if m['kind'] == 'harness':
                broken.append(item)
            else:
                violations.append(item)
        if len(samples) < 3 and r['id'] % 71 == 0:
            samples.append({'chain': r['chain']})
    # the flattened grammars against the Lean model (this is what makes "flattened" a decided reference)
    res = corerun.run_jobs_api(flat_jobs, bits)
    from props import c08
    summ = c08.summarize(res, 'flattened chains against the model')
    violations += summ['violations']
    broken += summ['broken']
    # creation order / parent untouched, observed in this process
    v2, n2 = order_independence(seed)
    violations += v2
    v3, n3 = template_chains(seed)
    violations += v3
    n2 += n3
    v4, n4 = class_chains(seed)
    violations += v4
    n2 += n4
    cov = {
        'evaluations': evals + summ['coverage']['evaluations'] + n2,
        'distinct_nontrivial': nontrivial,
        'rule': ('random chains of 2-3 grammars (every mix of overridden, inherited and new rules, super references at any level to own and other '
                 'rules, ignore declarations named/anonymous in base and/or derived levels, plain and dotted module names); parsing through every '
                 'level is compared with the flattened grammar (overrides win, super.R = private copy of the next definition up the chain) compiled '
                 'by the real code, and the flattened grammars with the Lean model; the base is re-observed after the children were created. '
                 'Non-trivial = level whose inputs gave at least two outcome classes.'),
        'samples': samples,
        'chains': len(jobs),
        'flattenings_compared_with_lean_flatProg': tie_n,
        'flattened_model_comparisons': summ['coverage']['evaluations'],
        'traces_validated_against_impl': summ['coverage']['evaluations'],
    }
    return {'coverage': cov, 'violations': violations, 'broken': broken}


def name_reuse_scenarios(tag, rr):
    """a name used again for another description: grammars created afterwards see the grammar that is installed under the name
    now, grammars created before keep theirs; compiling a description again gives what it gives under fresh names"""
    bad = []
    n = 0
    def outcome(mod, entry, text):
        f = mod.parse if entry is None else getattr(getattr(mod, entry, None), 'parse', None)
        if f is None:
            return ('X', f'no entry {entry}')
        return rr.run_real_api(f, text, 0, True)[0]
    base1 = 'grammar {p}base\nstart = Item*\nItem = Word\nWord = /[a-z]+/\n'
    base2 = 'grammar {p}base\nstart = Item*\nItem = Word\nWord = /[a-z]+/\nNum = /[0-9]+/ |> `int`\nignore / +/\n'
    child = 'grammar {p}child extends {p}base\noverride Item = Pair | super.Item\nPair = [Word << ":", Word]\n'
    second = 'grammar {p}second extends {p}base\noverride Item = Num | super.Item\nTwo = [Num, Num]\n'
    cases = [(None, 'a:b c'), (None, 'a: b'), (None, 'ab'), ('Pair', 'a: b'), ('Pair', 'a:b')]
    cases2 = [(None, 'a 1'), ('Two', '1 2'), ('Num', '7'), (None, 'a1')]
    # reference: every description once, under names of its own
    ref = {}
    for key, texts in (('child1', [base1, child]), ('child2', [base2, child]), ('second2', [base2, second])):
        mods = [rr.compile_grammar(t.replace('{p}', f'{tag}ref{key}_'))[0] for t in texts]
        ref[key] = [outcome(mods[-1], e, t) for e, t in (cases2 if key == 'second2' else cases)]
    p = f'{tag}hist_'
    rr.compile_grammar(base1.replace('{p}', p))
    c1, _ = rr.compile_grammar(child.replace('{p}', p))
    rr.compile_grammar(base2.replace('{p}', p))                 # the name is used again
    steps = []
    try:
        s2, _ = rr.compile_grammar(second.replace('{p}', p))        # created after: sees the new base
        steps.append(('a grammar created after the name of its parent was used again', [outcome(s2, e, t) for e, t in cases2], ref['second2']))
        c2, _ = rr.compile_grammar(child.replace('{p}', p))         # the same description again: as under fresh names with the new base
        steps.append(('a description compiled again after the name of its parent was used again', [outcome(c2, e, t) for e, t in cases], ref['child2']))
        steps.append(('the grammar created before the name of its parent was used again', [outcome(c1, e, t) for e, t in cases], ref['child1']))
    except Exception as exc:      # noqa: BLE001
        bad.append({'key': 'reuse|create', 'sig': 'name-reuse', 'kind': 'spec', 'what': f'after a name was used again, Grammar() raised {type(exc).__name__}: {str(exc)[:150]}'})
    for label, got, want in steps:
        n += len(got)
        if got != want:
            k = next(i for i in range(len(got)) if got[i] != want[i])
            bad.append({'key': f'reuse|{label}', 'sig': 'name-reuse', 'kind': 'spec',
                        'what': f'{label}: case {k} gives {got[k]}, the same descriptions under fresh names give {want[k]}'})
    return bad, n


def order_independence(seed):
    """creating and using modules in different orders; reusing a name; the parent before and after"""
    import realrun as rr
    bad = []
    n = 0
    base_t = f'grammar c13o_{seed}_a\nstart = R+\nR = "a" | S\nS = "s"\n'
    kid_t = f'grammar c13o_{seed}_b extends c13o_{seed}_a\nR = "b" >> super.R\nS = "t"\n'
    kid2_t = f'grammar c13o_{seed}_c extends c13o_{seed}_b\nS = "u" | super.S\n'
    inputs = ['a', 'ba', 'bt', 'bu', 'bba', 's', 'bs', 'aa', 'bsbt', 'btbu']
    a, _ = rr.compile_grammar(base_t)
    before = [rr.run_real_api(a.parse, t, 0, True)[0] for t in inputs]
    b, _ = rr.compile_grammar(kid_t)
    b_before = [rr.run_real_api(b.parse, t, 0, True)[0] for t in inputs]
    c, _ = rr.compile_grammar(kid2_t)
    # a sibling that reuses the name of b with different content
    b2, _ = rr.compile_grammar(f'grammar c13o_{seed}_b extends c13o_{seed}_a\nR = "z"\n')
    for mod, was, label in ((a, before, 'base'), (b, b_before, 'first derived module')):
        now = [rr.run_real_api(mod.parse, t, 0, True)[0] for t in inputs]
        n += len(inputs)
        if now != was:
            k = next(i for i in range(len(now)) if now[i] != was[i])
            bad.append({'key': f'order|{label}', 'sig': 'order|' + label, 'kind': 'spec',
                        'what': f'the {label} changed after later Grammar() calls: {inputs[k]!r} gave {was[k]}, now {now[k]}'})
    # a name used again between the creation of a child and of a grandchild: the grandchild extends the chain that exists
    # (its parent still extends the first grammar of that name)
    a1, _ = rr.compile_grammar(f'grammar c13r_{seed}_a\nstart = X*\nX = "a"\nignore / +/\n')
    b1, _ = rr.compile_grammar(f'grammar c13r_{seed}_b extends c13r_{seed}_a\noverride X = "b" | super.X\n')
    rr.compile_grammar(f'grammar c13r_{seed}_a\nstart = (X | Z)*\nX = "a"\nZ = "z"\n')
    try:
        c1, _ = rr.compile_grammar(f'grammar c13r_{seed}_c extends c13r_{seed}_b\noverride X = "c" | super.X\n')
        for t, want in (('c a b', 'V'), ('c  a', 'V'), ('c z', 'P')):
            got = rr.run_real_api(c1.parse, t, 0, True)[0]
            n += 1
            if got[0] != want:
                bad.append({'key': f'order|reuse|{t}', 'sig': 'order|name-reuse', 'kind': 'spec',
                            'what': f'a grandchild created after the name of its grandparent was used again: {t!r} gives {got}, expected outcome class {want}'})
    except Exception as exc:      # noqa: BLE001
        bad.append({'key': 'order|reuse|create', 'sig': 'order|name-reuse', 'kind': 'spec',
                    'what': f'a grandchild cannot be created after the name of its grandparent was used again: {type(exc).__name__}: {str(exc)[:120]}'})
    # a child whose dotted name ends like a rule of its parent: the parent keeps its rule
    pa, _ = rr.compile_grammar(f'grammar c13d{seed}\nstart = sub*\nsub = /[a-z]/\n')
    sub_before = rr.run_real_api(pa.sub.parse, 'a', 0, True)[0]
    pb, _ = rr.compile_grammar(f'grammar c13d{seed}.sub extends c13d{seed}\noverride sub = /[A-Z]/\n')
    n += 2
    try:
        sub_after = rr.run_real_api(pa.sub.parse, 'a', 0, True)[0]
    except Exception as exc:      # noqa: BLE001
        sub_after = ('X', type(exc).__name__)
    if sub_after != sub_before:
        bad.append({'key': 'order|dotted-rule', 'sig': 'order|dotted-rule', 'kind': 'spec',
                    'what': f'creating "grammar p.sub extends p" changed the rule sub of p: sub.parse("a") gave {sub_before}, now {sub_after}'})
    got = rr.run_real_api(pb.parse, 'AB', 0, True)[0]
    if got[0] != 'V':
        bad.append({'key': 'order|dotted-child', 'sig': 'order|dotted-rule', 'kind': 'spec', 'what': f'the child p.sub does not parse "AB": {got}'})
    b2, n2 = name_reuse_scenarios(f'c13nr{seed}', rr)
    bad += b2
    n += n2
    want_c = {'bu': 'V', 'bt': 'V', 'ba': 'V', 'bs': 'E', 'babu': 'V', 'bub': 'P'}
    for t, cls in want_c.items():
        got = rr.run_real_api(c.parse, t, 0, True)[0]
        n += 1
        if got[0] != cls:
            bad.append({'key': f'order|c|{t}', 'sig': 'order|chain3', 'kind': 'spec',
                        'what': f'three-level chain on {t!r}: {got}, expected outcome class {cls}'})
    return bad, n


TEMPLATE_CHAINS = [
    # (levels, flattened grammar per entry level, inputs)
    (['grammar {p}a\nstart = [Word, Group?]\nGroup = Wrap("<", ">")\nWrap(open, close) = open >> Word << close\nWord = /[a-z]+/\n',
      'grammar {p}b extends {p}a\nWrap(open, close) = [open, /[0-9]+/, close]\n',
      'grammar {p}c extends {p}b\nWord = /[A-Z]+/\nExtra = Wrap("(", ")")\n'],
     ['start = [Word, Group?]\nGroup = ("<" >> Word << ">")\nWord = /[a-z]+/\n',
      'start = [Word, Group?]\nGroup = ["<", /[0-9]+/, ">"]\nWord = /[a-z]+/\n',
      'start = [Word, Group?]\nGroup = ["<", /[0-9]+/, ">"]\nWord = /[A-Z]+/\n'],
     ['ab<cd>', 'ab<12>', 'AB<12>', 'ab', 'AB<cd>', 'ab<12', '']),
    (['grammar {p}a\nstart = Item // ","\nItem = Pair(Key, Val)\nPair(k, v) = [k, "=", v]\nKey = /[a-z]/\nVal = /[0-9]/\n',
      'grammar {p}b extends {p}a\nVal = /[0-9]+/ | Quoted\nQuoted = "\'" >> /[a-z]*/ << "\'"\nPair(k, v) = [k, ":", v] | super.Pair(k, v)\n'],
     ['start = Item // ","\nItem = [Key, "=", Val]\nKey = /[a-z]/\nVal = /[0-9]/\n',
      'start = Item // ","\nItem = ([Key, ":", Val] | [Key, "=", Val])\nKey = /[a-z]/\nVal = (/[0-9]+/ | Quoted)\nQuoted = ("\'" >> /[a-z]*/ << "\'")\n'],
     ['a=1', 'a:12,b=3', "a='x',b:2", 'a=12', 'a:', '']),
    # super.R(args) calls in the middle of a chain of four, overrides below and above them; every level is parsed
    # after the whole chain exists (creating a descendant must not change an ancestor)
    (['grammar {p}a\nstart = Wrap(Word)\nWord = /[a-z]+/\nWrap(x) = "(" >> x << ")"\n',
      'grammar {p}b extends {p}a\noverride Wrap(x) = "[" >> super.Wrap(x) << "]"\n',
      'grammar {p}c extends {p}b\noverride Word = /[a-z0-9]+/\n',
      'grammar {p}d extends {p}c\noverride Wrap(x) = "<" >> super.Wrap(x) << ">"\n'],
     ['start = "(" >> Word << ")"\nWord = /[a-z]+/\n',
      'start = "[" >> ("(" >> Word << ")") << "]"\nWord = /[a-z]+/\n',
      'start = "[" >> ("(" >> Word << ")") << "]"\nWord = /[a-z0-9]+/\n',
      'start = "<" >> ("[" >> ("(" >> Word << ")") << "]") << ">"\nWord = /[a-z0-9]+/\n'],
     ['(ab)', '[(ab)]', '[(a1)]', '<[(a1)]>', '<[(ab)]>', '[[(ab)]]', '(a1)', '']),
    # super.R handed to a template as an argument, in the middle of a chain of three
    (['grammar {p}a\nstart = Word\nWord = /[a-z]+/\nWrap(x) = "(" >> x << ")"\n',
      'grammar {p}b extends {p}a\noverride Word = Wrap(super.Word) | /[0-9]+/\n',
      'grammar {p}c extends {p}b\nOther = "q"\n'],
     ['start = Word\nWord = /[a-z]+/\n',
      'start = Word\nWord = ("(" >> /[a-z]+/ << ")") | /[0-9]+/\n',
      'start = Word\nWord = ("(" >> /[a-z]+/ << ")") | /[0-9]+/\n'],
     ['ab', '(ab)', '12', '((ab))', '(12)', '']),
    # inherited ignore patterns and a start rule of the child's own (plain and class)
    (['grammar {p}a\nignore / +/\nstart = Item*\nItem = /[a-z]+/\n',
      'grammar {p}b extends {p}a\noverride start = Item+\n',
      'grammar {p}c extends {p}b\nclass Start {{ first: Item; rest: Item* }}\n'.replace('{{', '{').replace('}}', '}')],
     ['ignore / +/\nstart = Item*\nItem = /[a-z]+/\n',
      'ignore / +/\nstart = Item+\nItem = /[a-z]+/\n',
      None],
     [' ab cd', 'ab cd ', '  ', 'ab', '']),
]


# no grammar of the chain has a rule called start: a derived grammar starts where its parent starts
TEMPLATE_CHAINS.append(
    (['grammar {p}a\nDoc = Item*\nItem = Word | Num\nWord = /[a-z]+/\nNum = /[0-9]+/\nignore / +/\n',
      'grammar {p}b extends {p}a\noverride Num = /[0-9]+/ |> `int`\n',
      'grammar {p}c extends {p}b\nignore /#/\n'],
     ['Doc = Item*\nItem = Word | Num\nWord = /[a-z]+/\nNum = /[0-9]+/\nignore / +/\n',
      'Doc = Item*\nItem = Word | Num\nWord = /[a-z]+/\nNum = /[0-9]+/ |> `int`\nignore / +/\n',
      None],
     ['a 1', ' a 1', '12', 'ab cd', '', '1 a#']))


# a Python section in front of an anonymous ignore declaration of the base (statements that are not rules do not count when
# anonymous rules are numbered); a base rule that can never fail overridden by one that can
TEMPLATE_CHAINS.append(
    (['grammar {p}a\n```\ndef to_number(s):\n    return int(s)\n```\nstart = Item*\nItem = Num | Word\nNum = /[0-9]+/ |> `to_number`\nWord = /[a-z]+/\nignore / +/\n',
      'grammar {p}b extends {p}a\noverride Word = /[A-Z]+/ | super.Word\n',
      'grammar {p}c extends {p}b\n`1`\nignore /#/\nExtra = "x"\n'],
     ['```\ndef to_number(s):\n    return int(s)\n```\nstart = Item*\nItem = Num | Word\nNum = /[0-9]+/ |> `to_number`\nWord = /[a-z]+/\nignore / +/\n',
      '```\ndef to_number(s):\n    return int(s)\n```\nstart = Item*\nItem = Num | Word\nNum = /[0-9]+/ |> `to_number`\nWord = /[A-Z]+/ | /[a-z]+/\nignore / +/\n',
      None],
     [' ab  CD 12 ', 'ab', 'AB cd', '1 2', '', 'a#B']))
TEMPLATE_CHAINS.append(
    (['grammar {p}a\nstart = Item*\nItem = Num | Word\nNum = [Sign, Digits]\nMark = Sign | "!"\nSign = Opt("-" | "+")\nDigits = /[0-9]+/\nWord = /[a-z]+/\nignore / +/\n',
      'grammar {p}b extends {p}a\noverride Sign = "-" | "+"\n',
      'grammar {p}c extends {p}b\noverride Digits = /[0-9]/\n'],
     ['start = Item*\nItem = Num | Word\nNum = [Sign, Digits]\nMark = Sign | "!"\nSign = Opt("-" | "+")\nDigits = /[0-9]+/\nWord = /[a-z]+/\nignore / +/\n',
      'start = Item*\nItem = Num | Word\nNum = [Sign, Digits]\nMark = Sign | "!"\nSign = "-" | "+"\nDigits = /[0-9]+/\nWord = /[a-z]+/\nignore / +/\n',
      'start = Item*\nItem = Num | Word\nNum = [Sign, Digits]\nMark = Sign | "!"\nSign = "-" | "+"\nDigits = /[0-9]/\nWord = /[a-z]+/\nignore / +/\n'],
     ['12', '-12 ab', '+1 2', 'ab', '', '7', '- 3']))


def _deep(n):
    body = '[Item, Item]'
    for _ in range(n):
        body = f'(("(" >> {body} << ")") | [Item, Item])'
    return body


# an inherited rule nested so deeply that the generator moves part of it into helper functions: references inside
# the helpers are late-bound like all others
TEMPLATE_CHAINS.append(
    ([f'grammar {{p}}a\nstart = "d" >> Deep\nDeep = {_deep(16)}\nItem = "a"\n',
      'grammar {p}b extends {p}a\noverride Item = "b" | super.Item\n',
      'grammar {p}c extends {p}b\nOther = Deep\n'],
     [f'start = "d" >> Deep\nDeep = {_deep(16)}\nItem = "a"\n',
      f'start = "d" >> Deep\nDeep = {_deep(16)}\nItem = "b" | "a"\n',
      f'start = "d" >> Deep\nDeep = {_deep(16)}\nItem = "b" | "a"\n'],
     ['d' + '(' * k + x + ')' * k for k in (0, 1, 4, 5, 6, 9, 12, 15, 16) for x in ('ab', 'aa', 'bb')] + ['d(((ab))', 'dab)', '']))


def template_chains(seed):
    import realrun as rr
    bad = []
    n = 0
    for ci, (levels, flats, inputs) in enumerate(TEMPLATE_CHAINS):
        prefix = f'c13t{seed}_{ci}_'
        mods = []
        try:
            for t in levels:
                mods.append(rr.compile_grammar(t.replace('{p}', prefix))[0])
        except Exception as exc:      # noqa: BLE001
            bad.append({'key': f'tchain|{ci}', 'sig': f'tchain|{ci}', 'kind': 'spec',
                        'what': f'creating template chain {ci} raised {type(exc).__name__}: {str(exc)[:200]}'})
            continue
        for li, (mod, ft) in enumerate(zip(mods, flats)):
            if ft is None:
                continue
            flat, _ = rr.compile_grammar(ft)
            for t in inputs:
                a = rr.run_real_api(mod.parse, t, 0, True)[0]
                b = rr.run_real_api(flat.parse, t, 0, True)[0]
                n += 1
                if a != b and not (a[0] == b[0] == 'E'):
                    bad.append({'key': f'tchain|{ci}|{li}|{t}', 'sig': f'tchain|{ci}|{li}', 'kind': 'spec',
                                'what': f'template chain {ci}: parsing {t!r} through level {li} gives {a}, its flattening gives {b}'})
                    break
            # every plain rule of the flattened grammar as an entry point of the level
            for name in dir(flat):
                if name.startswith('_'):
                    continue
                rb = getattr(flat, name)
                if not (hasattr(rb, 'definition') and hasattr(rb, 'parse')) or '(' in str(rb.definition).split('=')[0]:
                    continue
                ra = getattr(mod, name, None)
                if ra is None or not hasattr(ra, 'parse'):
                    bad.append({'key': f'tchain|{ci}|{li}|{name}', 'sig': f'tchain|{ci}|{li}|entry', 'kind': 'spec',
                                'what': f'template chain {ci}: rule {name} is not available at level {li}'})
                    continue
                for t in list(inputs) + ['!', '-', '+7']:
                    a = rr.run_real_api(ra.parse, t, 0, True)[0]
                    b = rr.run_real_api(rb.parse, t, 0, True)[0]
                    n += 1
                    if a != b and not (a[0] == b[0] == 'E'):
                        bad.append({'key': f'tchain|{ci}|{li}|{name}|{t}', 'sig': f'tchain|{ci}|{li}|entry', 'kind': 'spec',
                                    'what': f'template chain {ci}: {name}.parse({t!r}) at level {li} gives {a}, its flattening gives {b}'})
                        break
    return bad, n


CLASS_CHAINS = [
    # (levels, flattened grammar per level, [(entry, input)])
    (['grammar {p}a\nstart = K\nclass K {{ x: Item; y: Item* }}\nItem = "a"\nList = K // ","\n',
      'grammar {p}b extends {p}a\noverride Item = "b" | super.Item\n',
      'grammar {p}c extends {p}b\noverride Item = "c" | super.Item\nclass L {{ k: K }}\n'],
     ['start = K\nclass K {{ x: Item; y: Item* }}\nItem = "a"\nList = K // ","\n',
      'start = K\nclass K {{ x: Item; y: Item* }}\nItem = "b" | "a"\nList = K // ","\n',
      'start = K\nclass K {{ x: Item; y: Item* }}\nItem = "c" | ("b" | "a")\nList = K // ","\nclass L {{ k: K }}\n'],
     [(e, t) for e in ('start', 'K', 'Item', 'List', 'L') for t in ('a', 'ab', 'ba', 'cab', 'ab,b', 'c,a', 'd', '')]),
    (['grammar {p}a\nignore / +/\nclass Start {{ head: Word; tail: Tail }}\nclass Tail {{ items: Word* }}\nWord = /[a-z]+/\n',
      'grammar {p}b extends {p}a\noverride Word = /[0-9]+/ | super.Word\n'],
     ['ignore / +/\nclass Start {{ head: Word; tail: Tail }}\nclass Tail {{ items: Word* }}\nWord = /[a-z]+/\n',
      'ignore / +/\nclass Start {{ head: Word; tail: Tail }}\nclass Tail {{ items: Word* }}\nWord = /[0-9]+/ | /[a-z]+/\n'],
     [(e, t) for e in ('Start', 'Tail', 'Word') for t in ('ab 12', '12 ab cd', 'ab', '12', '')]),
]


def class_chains(seed):
    """entry points of rules *and classes*, own and inherited, at every level of a chain with classes"""
    import realrun as rr
    bad = []
    n = 0
    for ci, (levels, flats, cases) in enumerate(CLASS_CHAINS):
        prefix = f'c13k{seed}_{ci}_'
        fix = lambda t: t.replace('{p}', prefix).replace('{{', '{').replace('}}', '}')      # noqa: E731
        try:
            mods = [rr.compile_grammar(fix(t))[0] for t in levels]
        except Exception as exc:      # noqa: BLE001
            bad.append({'key': f'kchain|{ci}', 'sig': f'kchain|{ci}', 'kind': 'spec',
                        'what': f'creating class chain {ci} raised {type(exc).__name__}: {str(exc)[:200]}'})
            continue
        kinds = {}
        for li, (mod, ft) in enumerate(zip(mods, flats)):
            flat, _ = rr.compile_grammar(fix(ft))
            for entry, t in cases:
                ra, rb = getattr(mod, entry, None), getattr(flat, entry, None)
                if rb is None:
                    continue                      # not defined at this level
                n += 1
                if ra is None:
                    bad.append({'key': f'kchain|{ci}|{li}|{entry}', 'sig': f'kchain|{ci}|{li}|{entry}', 'kind': 'spec',
                                'what': f'class chain {ci}: {entry} is not available at level {li}'})
                    continue
                a = rr.run_real_api(ra.parse, t, 0, True)[0]
                b = rr.run_real_api(rb.parse, t, 0, True)[0]
                if a != b and not (a[0] == b[0] == 'E'):
                    own = any(f'class {entry} ' in fix(x) for x in levels[li:li + 1])
                    is_class = any(f'class {entry} ' in fix(x) for x in levels[:li + 1])
                    item = {'key': f'kchain|{ci}|{li}|{entry}|{t}', 'sig': f'kchain|{ci}|{li}|{entry}', 'kind': 'spec',
                            'what': f'class chain {ci}: {entry}.parse({t!r}) at level {li} gives {a}, its flattening gives {b}'}
                    if is_class and not own and li > 0:
                        item['finding_class'] = 'inherited-class-entry-point'
                    bad.append(item)
    return bad, n


def replay(case, lean):
    out = run('quick', case.get('seed', 0), lean)
    out['violations'] = [v for v in out['violations'] if v.get('sig') == case.get('sig')][:3]
    return out
