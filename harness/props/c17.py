"""C17 - nesting depth never changes meaning or exhausts the Python stack."""
import multiprocessing as mp
import os
import random
import sys

import corerun
import realrun

ID = 'C17'
THEOREMS = [
    'Sourcer.C17_nested_sequences',
    'Sourcer.C17_nested_options',
    'Sourcer.C17_nested_failing_choices',
    'Sourcer.C17_spilled_helper_same_outcome',
    'Sourcer.C07_memo_transparent',
    'Sourcer.C01_codegen_refines_peg',
]
TIE_MODULES = ['Tie.Flags']
ASSUMPTIONS = [
    'the split of emitted code into helper functions (block budget of 20) is not in the Lean model, which has no nesting limit: the model is the reference '
    'the implementation is compared with at every depth; that the Python stack stays flat under deep rule recursion is a runtime fact (C07_memo_transparent '
    'shows the trampoline computes the recursive meaning with a flat loop) exercised with 10^4-10^5 nested brackets',
]

# inner expressions: (name, expression text, extra rules, input, value at depth 0 as a python literal, core-model-decidable)
INNERS = [
    ('literal', '"a"', '', 'a', "'a'"),
    ('regex', '/a+/', '', 'aa', "'aa'"),
    ('rule reference', 'A', 'A = "a" | "b"\n', 'b', "'b'"),
    ('class reference', 'K', 'class K { v: "a" }\n', 'a', None),
    ('template call', 'T("a")', 'T(x) = x << "!"?\n', 'a!', "'a'"),
    ('template call with rule', 'T(A)', 'T(x) = [x, x]\nA = "a"\n', 'aa', "['a', 'a']"),
    ('inline python with bound name', 'LETPY:x', '', 'a', "['a', 'a']"),
    ('repetition count from bound name', 'LETN', '', '2aa', "['a', 'a']"),
    ('parameter', 'PARAM', '', 'q', "'q'"),
    ('operator table', '("a" between {\n postfix: "%"\n left: "+"\n})', '', 'a', "'a'"),
    ('star (never fails)', '("a"*)', '', 'aaa', "['a', 'a', 'a']"),
    ('option in a choice (never fails)', '("zz" | ("a")?)', '', 'a', "'a'"),
]

WRAPPERS = [
    ('seq', lambda s: f'[{s}]', lambda v: [v]),
    ('group', lambda s: f'({s})', lambda v: v),
    ('opt', lambda s: f'({s})?', lambda v: v),
    ('fail-alt', lambda s: f'(Fail() | {s})', lambda v: v),
    ('seq+opt', lambda s: f'[({s})?]', lambda v: [v]),
    ('discard', lambda s: f'("" >> {s})', lambda v: v),
    ('table', lambda s: f'(({s}) between {{\n postfix: "%"\n}})', lambda v: v),
    ('never-failing choice', lambda s: f'("zz" | ({s})?)', lambda v: v),
]

DEPTHS_QUICK = [1, 2, 5, 9, 10, 16, 17, 18, 19, 20, 21, 35, 36, 37, 38, 39, 55, 60, 90, 100, 120]


def grammar_for(inner, wrap, depth, named, ignore, tag):
    name, etext, rules, inp, val = inner
    body = {'LET:x': 'x', 'LETPY:x': '`[x, x]`', 'LETN': '"a"{n}', 'PARAM': 'x'}.get(etext, etext)
    for _ in range(depth):
        body = wrap(body)
    if etext in ('LET:x', 'LETPY:x'):
        start = f'start = let x = "a" in {body}\n'
    elif etext == 'LETN':
        start = f'start = let n = /\\d/ |> `int` in {body}\n'
    elif etext == 'PARAM':
        start = f'start = R("q")\nR(x) = {body}\n'
    else:
        start = f'start = {body}\n'
    head = f'grammar c17_{tag}\n' if named else ''
    ign = 'ignore / +/\n' if ignore else ''
    return head + ign + start + rules


def _job(job):
    import realrun as rr
    out = {'id': job['id'], 'bad': None, 'n': 0}
    try:
        with rr.time_limit(60):
            for pre in job.get('pre', []):
                rr.compile_grammar(pre)
            mod, _ = rr.compile_grammar(job['text'])
    except Exception as exc:      # noqa: BLE001
        out['bad'] = f'Grammar() raised {type(exc).__name__}: {str(exc)[:120]}'
        return out
    for text in job['inputs']:
        got = rr.run_real_api(mod.parse, text, 0, True, limit=20)[0]
        out['n'] += 1
        want = job['want'].get(text)
        if want is not None and got != tuple(want):
            out['bad'] = f'on {text!r}: {str(got)[:160]} expected {str(want)[:160]}'
            return out
    return out


def pv(v):
    from common import pval
    return pval(v)


def run(tier, seed, lean):
    sys.setrecursionlimit(1000)
    rng = random.Random(seed)
    depths = DEPTHS_QUICK if tier == 'quick' else list(range(1, 125))
    jobs = []
    for inner in INNERS:
        for wname, wrap, wval in WRAPPERS:
            for depth in depths:
                if wname in ('seq+opt', 'never-failing choice') and depth > 100:
                    continue          # two layers per level: the statement's range is 'depths 1..100+'
                if tier == 'quick' and rng.random() < 0.45 and depth not in (17, 18, 19, 36, 37, 38):
                    continue
                named = rng.random() < 0.4
                ignore = rng.random() < 0.4
                text = grammar_for(inner, wrap, depth, named, ignore, f'{seed}_{len(jobs)}')
                want = {}
                inp = inner[3]
                if inner[4] is not None:
                    v = eval(inner[4])
                    for _ in range(depth):
                        v = wval(v)
                    want[inp] = ('V', pv(v))
                    if ignore:
                        want[' ' + inp + ' '] = ('V', pv(v))
                inputs = [inp] + ([' ' + inp + ' '] if ignore else []) + ['', 'zz']
                jobs.append({'id': len(jobs), 'text': text, 'inputs': inputs, 'want': want,
                             'meta': f'{inner[0]} / {wname} / depth {depth} / {"named" if named else "unnamed"}{" / ignore" if ignore else ""}'})
    # a nest in a base grammar, read through a derived grammar that overrides the innermost rule: code that was moved
    # into helper functions must still look rules up through the grammar that was entered
    for wname, wrap, wval in WRAPPERS[:5]:
        for depth in [d for d in depths if d in (1, 9, 16, 17, 18, 19, 20, 21, 36, 37, 38, 39, 60)]:
            tag = f'{seed}_{len(jobs)}'
            body = 'Item'
            for _ in range(depth):
                body = wrap(body)
            base = f'grammar c17b_{tag}\nstart = {body}\nItem = "a"\n'
            derived = f'grammar c17d_{tag} extends c17b_{tag}\noverride Item = "b"\n'
            v = 'b'
            for _ in range(depth):
                v = wval(v)
            want = {'b': ('V', pv(v))}
            jobs.append({'id': len(jobs), 'pre': [base], 'text': derived, 'inputs': ['b', ''], 'want': want,
                         'meta': f'override read through a derived grammar / {wname} / depth {depth} / named'})
    results = corerun.pool_map(_job, jobs, chunksize=4)
    violations, broken = [], []
    evals = sum(r['n'] for r in results)
    by_id = {j['id']: j for j in jobs}
    for r in results:
        if r['bad']:
            j = by_id[r['id']]
            violations.append({'key': j['text'], 'sig': j['meta'].split(' / depth')[0], 'kind': 'spec', 'grammar': j['text'][:2000], 'case': j['meta'],
                               'what': f'{j["meta"]}: {r["bad"]}'})
    # the same wrappers against the Lean model, at depths the model handles comfortably
    from extract_flags import bits_of
    bits = bits_of(lean.regen['flags']['entries']) if lean.regen.get('flags', {}).get('ok') else None
    mjobs = []
    for inner in INNERS[:4]:
        for wname, wrap, wval in WRAPPERS:
            for depth in (1, 5, 17, 18, 19, 25, 40):
                text = grammar_for(inner, wrap, depth, False, depth % 2 == 0, 'm')
                mjobs.append({'id': len(mjobs), 'text': text, 'cases': [(0, inner[3]), (0, ''), (0, inner[3] + 'x'), (0, ' ' + inner[3])],
                              'entries': ['__module__'], 'fuel': 4 * depth + 60, 'meta': {'ctx': f'{inner[0]}/{wname}/{depth}'}})
    from props import c08
    res = corerun.run_jobs_api(mjobs, bits)
    summ = c08.summarize(res, 'wrapper depth against the model')
    violations += summ['violations']
    broken += summ['broken']
    # bound names, parameters and class fields used inside helper functions: names-layer programs, deepened, real = xgen = xpeg
    import envrun
    from props import c05
    njobs = names_layer_jobs(tier, seed)
    ncov, nviol, nbroken = c05.summarise(envrun.run_jobs(njobs), njobs)
    violations += nviol
    broken += nbroken
    # rule recursion driven deep by the input
    deep_bad, deep_n, deep_samples = deep_recursion(tier)
    violations += deep_bad
    # ... and the deep result handed to a template as an argument value (it becomes part of a memo key)
    import realrun as rr_
    for name, text, make in DEEP_ARGUMENTS_OK:
        mod, _ = rr_.compile_grammar(text)
        for depth in (1100, 5000):
            deep_n += 1
            try:
                with rr_.time_limit(60):
                    mod.parse(make(depth))          # (the value is not printed: the printer of the harness is recursive)
                r = ('V',)
            except Exception as exc:      # noqa: BLE001
                r = ('X', type(exc).__name__)
            if r[0] != 'V':
                violations.append({'key': f'deep-argument|{name}|{depth}', 'sig': f'deep-argument|{name}', 'kind': 'spec', 'case': name,
                                   'what': f'{name}: recursion depth {depth} through the input, result passed to a template: {str(r)[:100]}'})
    for name, text, make in DEEP_ARGUMENTS:
        mod, _ = rr_.compile_grammar(text)
        for depth in (300, 3000):
            deep_n += 1
            r = rr_.run_real_api(mod.parse, make(depth), 0, True, limit=60.0)[0]
            if r[0] != 'V':
                violations.append({'key': f'deep-argument|{name}|{depth}', 'sig': f'deep-argument|{name}', 'kind': 'spec', 'case': name,
                                   'finding_class': 'deep-argument-recursion' if r == ('X', 'RecursionError') and depth == 3000 else 'none',
                                   'what': f'{name}: recursion depth {depth} through the input, result passed to a template: {r}'})
    cov = {
        'evaluations': evals + summ['coverage']['evaluations'] + deep_n + ncov['evaluations'],
        'distinct_nontrivial': len([j for j in jobs if j['want']]),
        'rule': ('inner expression {literal, regex, rule reference, class reference, template call, bound let name, inline Python mentioning a bound '
                 'name, repetition count from a bound name, parameter} x wrapper {[.], (.), (.)?, Fail()|., [(.)?], ""≫.} x nesting depth 1..120 '
                 '(every multiple of the block budget crossed) x {named, unnamed} x {with, without ignore}: the value must be the k-fold wrapped '
                 'value; a subset is compared with the Lean model (which has no nesting limit); inputs with 10^4 (thorough 10^5) nested brackets '
                 'through plain rules, templates and classes under the default recursion limit. Non-trivial = case with a known expected value.'),
        'samples': [{'case': jobs[0]['meta'], 'grammar': jobs[0]['text']}] + deep_samples,
        'wrapper_cases': len(jobs),
        'model_comparisons': summ['coverage']['evaluations'],
        'traces_validated_against_impl': summ['coverage']['evaluations'],
        'deep_recursion_cases': deep_n,
        'names_layer_programs_deepened': ncov['programs'],
        'names_layer_evaluations': ncov['evaluations'],
        'names_layer_model_undefined': ncov['cases_where_model_is_undefined'],
    }
    return {'coverage': cov, 'violations': violations, 'broken': broken}


def _has_let(e):
    if not isinstance(e, tuple):
        return False
    if e[0] == 'let':
        return True
    return any(_has_let(x) or (isinstance(x, list) and any(_has_let(y) or (isinstance(y, tuple) and len(y) == 2 and _has_let(y[1])) for y in x))
               for x in e[1:])


def _wrap(e, k):
    # `identity <| e`: the function is read first and `e` is compiled inside the block that follows it, so every layer
    # is a level of nesting; the value stays what it was, so the inline Python of the program keeps seeing values of
    # the types it was generated for
    for i in range(k):
        e = ('applyl', ('where', ('py', 1000, []), 11, []), e)       # the `where` (always true) keeps the generator from dropping the block
    return e


def deepen(e, k):
    """the body of every innermost binder is wrapped in k transparent layers (`identity <| .`): the uses of the bound name end up in a
    helper function, the binder stays outside"""
    kind = e[0]
    if kind in ('lit', 'cc', 'ref', 'py', 'pvar'):
        return e
    if kind in ('seq', 'choice'):
        return (kind, [deepen(x, k) for x in e[1]])
    if kind in ('star', 'opt'):
        return (kind, deepen(e[1], k))
    if kind == 'let':
        body = deepen(e[3], k)
        if not _has_let(e[3]):
            body = _wrap(body, k)
        return ('let', e[1], deepen(e[2], k), body)
    if kind in ('where', 'apply', 'rep'):
        return (kind, deepen(e[1], k), e[2], e[3])
    if kind == 'applyl':
        return (kind, deepen(e[1], k), deepen(e[2], k))
    if kind == 'call':
        return ('call', e[1], [(kw, deepen(a, k)) for kw, a in e[2]])
    if kind == 'bseq':
        items = [(n, deepen(x, k)) for n, x in e[3]]
        if items and not _has_let(items[-1][1]):
            items[-1] = (items[-1][0], _wrap(items[-1][1], k))       # the last member sees every field before it
        return ('bseq', e[1], e[2], items)
    raise ValueError(kind)


def names_layer_jobs(tier, seed):
    """programs of the names layer (C05/C06) with the scopes of their binders nested past the block budget"""
    import envgen
    from props import c05
    rng = random.Random(seed * 7919 + 17)
    base = [(fam, P) for fam, P in c05.hand_programs() if not fam.startswith(('shadow', 'lambda'))]
    for i in range(40 if tier == 'quick' else 400):
        g = envgen.Gen(random.Random(rng.randrange(1 << 30)), shadow=0.0, named=('envd' if i % 3 == 0 else None))
        base.append((f'generated{i}', g.program(n_rules=rng.randrange(1, 3), n_templates=rng.randrange(0, 3), depth=rng.randrange(2, 4))))
    jobs = []
    hand_inputs = ['a!', 'b', 'bc', 'aab', 'abcab', '2,3', '3,2', '1,1', '2abc', '0', '3abc', 'aaa', 'aa', 'ab', 'ba', '(2)', '(2)a', '(a)', '',
                   '2,ab', '1,c', '0,', 'a,b', '3,abc', '2,a']
    for fam, P in base:
        for k in ((18, 21) if fam.startswith('generated') else (17, 19, 20, 22, 41)):
            Q = dict(P)
            Q['rules'] = [(n, deepen(b, k)) for n, b in P['rules']]
            # a template body without binders of its own is wrapped as a whole: its parameters cross into the helper
            Q['templates'] = [(n, ps, deepen(b, k) if _has_let(b) or b[0] == 'bseq' else _wrap(b, k)) for n, ps, b in P['templates']]
            if fam.startswith('generated'):
                inputs = list(dict.fromkeys(envgen.inputs_from(P, random.Random(rng.randrange(1 << 30)), 8) + envgen.inputs_for(random.Random(rng.randrange(1 << 30)), 2)))
            else:
                inputs = hand_inputs
                Q['named'] = 'envd' if k % 2 else None
            jobs.append({'id': f'deep-{fam}-{k}', 'family': f'deep-{fam.rstrip("0123456789")}', 'program': Q, 'inputs': inputs, 'seed': seed, 'expand': False})
    return jobs


DEEP = [
    ('plain rule', 'start = E\nE = ("(" >> E << ")") | "x"\n', lambda d: '(' * d + 'x' + ')' * d, lambda v, d: v == 'x'),
    ('list-building rule', 'start = E\nE = ["[", E, "]"] | "x"\n', lambda d: '[' * d + 'x' + ']' * d, None),
    ('template', 'start = E\nP(o, c) = o >> E << c\nE = P("(", ")") | P("[", "]") | "x"\n',
     lambda d: '([' * (d // 2) + 'x' + '])' * (d // 2), lambda v, d: v == 'x'),
    ('class', 'start = E\nclass Box { pass "{"; inner: E; pass "}" }\nE = Box | "x"\n', lambda d: '{' * d + 'x' + '}' * d, None),
    ('operator table', 'start = E\nE = A between {\n mixfix: "(" >> E << ")"\n left: "+"\n}\nA = "x"\n',
     lambda d: '(' * d + 'x' + ')' * d + '+x', None),
]


DEEP_ARGUMENTS_OK = [
    ('deep list as argument', 'start = let tree = Nest in Trailer(tree)\nNest = ["(", Nest?, ")"]\nTrailer(t) = ";" >> `t`\n',
     lambda d: '(' * d + ')' * d + ';'),
    ('deep list as class argument', 'start = let tree = Nest in Box(tree)\nNest = ["(", Nest?, ")"]\nclass Box(t) { semi: ";"; inner: `len(t)` }\n',
     lambda d: '(' * d + ')' * d + ';'),
]
DEEP_ARGUMENTS = [
    ('deep object as argument', 'start = let tree = Nest in Tail(tree)\nclass Nest { open: "("; child: Nest?; close: ")" }\nTail(t) = ";" >> `t`\n',
     lambda d: '(' * d + ')' * d + ';'),
    ('deep list as argument, same call twice at one position', 'start = let tree = Nest in (Tail(tree) << "!" | Tail(tree))\nNest = ["(", Nest?, ")"]\nTail(t) = ";" >> `t`\n',
     lambda d: '(' * d + ')' * d + ';'),
    ('argument closing over the parameter of its own template', 'start = W("x")\nW(x) = ("(" >> W(["-", x]) << ")") | x\n',
     lambda d: '(' * d + '-' * d + 'x' + ')' * d),
]


def deep_recursion(tier):
    import realrun as rr
    sys.setrecursionlimit(1000)
    bad, n, samples = [], 0, []
    depths = [1000, 10000] if tier == 'quick' else [1000, 10000, 100000]
    for name, g, mk, ok in DEEP:
        mod, _ = rr.compile_grammar(g)
        for d in depths:
            text = mk(d)
            n += 1
            try:
                v = mod.parse(text)
                depth = 0
                x = v
                while True:
                    if isinstance(x, list) and len(x) == 3:
                        x = x[1]
                    elif hasattr(x, 'inner'):
                        x = x.inner
                    elif hasattr(x, 'left'):
                        x = x.left
                    else:
                        break
                    depth += 1
                if ok is not None and not ok(v, d):
                    bad.append({'key': f'deep|{name}|{d}', 'sig': f'deep|{name}', 'kind': 'spec', 'what': f'{name}: depth {d} gave {str(v)[:60]}'})
                if name in ('list-building rule', 'class') and depth != d:
                    bad.append({'key': f'deep|{name}|{d}', 'sig': f'deep|{name}', 'kind': 'spec',
                                'what': f'{name}: input nested {d} deep produced a value nested {depth} deep'})
            except RecursionError:
                bad.append({'key': f'deep|{name}|{d}', 'sig': f'deep|{name}', 'kind': 'spec',
                            'what': f'{name}: RecursionError on input with {d} nested brackets'})
            except Exception as exc:      # noqa: BLE001
                bad.append({'key': f'deep|{name}|{d}', 'sig': f'deep|{name}', 'kind': 'spec',
                            'what': f'{name}: {type(exc).__name__} on input with {d} nested brackets: {str(exc)[:100]}'})
        samples.append({'family': name, 'max_depth': depths[-1]})
    return bad, n, samples


def replay(case, lean):
    out = run('quick', case.get('seed', 0), lean)
    out['violations'] = [v for v in out['violations'] if v.get('sig') == case.get('sig')][:3]
    return out
