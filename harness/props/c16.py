"""C16 - transform rewrites bottom-up, once per node, preserving metadata."""
import copy
import random

from common import Driver
import realrun

ID = 'C16'
THEOREMS = [
    'Sourcer.C16_once_per_node',
    'Sourcer.C16_bottom_up',
    'Sourcer.C16_identity',
    'Sourcer.C16_metadata',
    'Sourcer.C16_copy_keeps_metadata',
    'Sourcer.C16_leaves_and_lists',
]
TIE_MODULES = []
TRANSLATORS = ()
ASSUMPTIONS = [
    'callbacks are modelled as functions returning either their argument itself or a different object; Python object identity beyond that is abstracted',
    'tuples and dicts are leaves for transform (the implementation does not descend into them)',
]

GRAMMAR = '''class U1 { a: "u" }
class U2 { a: "v" }
class B1 { a: "x"; b: "y" }
class B2 { a: "p"; b: "q" }
class T1 { a: "x"; b: "y"; c: "z" }
start = "s"
'''
CLASSES = [('U1', 1), ('U2', 1), ('B1', 2), ('B2', 2), ('T1', 3)]
CID = {n: i for i, (n, _) in enumerate(CLASSES)}
ARITY = dict(CLASSES)


def rand_tree(rng, depth, counter, made=None):
    """made: objects generated so far; one of them may occur again (the same object at several places of the tree: each
    occurrence is rewritten on its own). Leaf 7 is a namedtuple that holds a parsed object: a leaf like any other."""
    made = [] if made is None else made
    c = rng.random()
    if made and c < 0.12:
        return rng.choice(made)
    if depth <= 0 or c < 0.25:
        return ('x', rng.choice([0, 1, 2, 3, 9, 7]))
    if c < 0.45:
        return ('l', [rand_tree(rng, depth - 1, counter, made) for _ in range(rng.randint(0, 3))])
    cls, ar = rng.choice(CLASSES)
    counter[0] += 1
    pos = rng.randint(1, 50) if rng.random() < 0.6 else None
    t = ('o', cls, counter[0], pos, [rand_tree(rng, depth - 1, counter, made) for _ in range(ar)])
    made.append(t)
    return t


def wire(t):
    if t[0] == 'x':
        return f'(x {t[1]})'
    if t[0] == 'l':
        return '(l' + ''.join(' ' + wire(x) for x in t[1]) + ')'
    pos = f' (pos {t[3]})' if t[3] is not None else ''
    return f'(o {CID[t[1]]} {t[2]}{pos}' + ''.join(' ' + wire(x) for x in t[4]) + ')'


NT = __import__('collections').namedtuple('NT', 'first, last')


def build(mod, t, cache=None):
    cache = {} if cache is None else cache
    if t[0] == 'x':
        if t[1] == 7:
            return NT(getattr(mod, CLASSES[0][0])(*([1] * CLASSES[0][1])), 0)      # a leaf that has _fields and _replace of its own
        return t[1] if t[1] != 9 else None
    if t[0] == 'l':
        return [build(mod, x, cache) for x in t[1]]
    if t[2] in cache:
        return cache[t[2]]                   # the same object again
    o = getattr(mod, t[1])(*[build(mod, x, cache) for x in t[4]])
    if t[3] is not None:
        o._metadata.position_info = t[3]
    cache[t[2]] = o
    return o


def show(v):
    """canonical print of a real value, same format as the driver's printTV"""
    if v is None:
        return '(x 9)'
    if isinstance(v, NT):
        return '(x 7)'
    if isinstance(v, int):
        return f'(x {v})'
    if isinstance(v, list):
        return '(l' + ''.join(' ' + show(x) for x in v) + ')'
    info = v._metadata.position_info
    pos = f' (pos {info})' if info is not None else ''
    return f'(o {CID[type(v).__name__]}{pos}' + ''.join(' ' + show(getattr(v, f)) for f in v._fields) + ')'


def rand_callback(rng):
    rules = {}
    for cls, ar in rng.sample(CLASSES, rng.randint(1, 3)):
        same_arity = [c for c, a in CLASSES if a == ar and c != cls]
        kind = rng.choice(['same', 'new', 'newmeta', 'leaf', 'wrap', 'set', 'equalcopy', 'child'] if same_arity else ['same', 'leaf', 'wrap', 'set', 'equalcopy', 'child'])
        if kind == 'new':
            rules[cls] = ('new', rng.choice(same_arity), None)
        elif kind == 'newmeta':
            rules[cls] = ('new', rng.choice(same_arity), rng.randint(60, 99))
        elif kind == 'leaf':
            rules[cls] = ('leaf', rng.choice([0, 1, 2, 3]))
        elif kind == 'set':
            rules[cls] = ('set', rng.randrange(ar), rng.choice([0, 1, 2, 3, 9]))
        elif kind == 'child':
            rules[cls] = ('child', rng.randrange(ar))          # hoists one of the node's own children (an object of the input tree)
        else:
            rules[cls] = (kind,)
    return rules


def cb_wire(rules):
    out = []
    for cls, a in rules.items():
        if a[0] == 'new':
            act = f'(new {CID[a[1]]})' if a[2] is None else f'(new {CID[a[1]]} {a[2]})'
        elif a[0] == 'leaf':
            act = f'(leaf {a[1]})'
        elif a[0] == 'set':
            act = f'(set {a[1]} {a[2]})'
        elif a[0] == 'child':
            act = f'(child {a[1]})'
        else:
            act = a[0]
        out.append(f'({CID[cls]} {act})')
    return '(' + ' '.join(out) + ')'


def make_py_callback(mod, rules, index, log):
    def f(node):
        log.append(f'{index}={show(node)}')
        if not isinstance(node, mod.ParsedObject):
            return node
        a = rules.get(type(node).__name__)
        if a is None or a[0] == 'same':
            return node
        fields = [getattr(node, n) for n in node._fields]
        if a[0] == 'new':
            o = getattr(mod, a[1])(*fields)
            if a[2] is not None:
                o._metadata.position_info = a[2]
            return o
        if a[0] == 'leaf':
            return a[1]
        if a[0] == 'wrap':
            return [node]
        if a[0] == 'set':
            return node._replace(**{node._fields[a[1]]: (None if a[2] == 9 else a[2])})
        if a[0] == 'child':
            return fields[a[1]]
        if a[0] == 'equalcopy':
            return type(node)(*fields)
        raise AssertionError(a)
    return f


def run(tier, seed, lean):
    rng = random.Random(seed)
    mod, _ = realrun.compile_grammar(GRAMMAR)
    drv = Driver()
    n = 1500 if tier == 'quick' else 15000
    violations, broken = [], []
    evals = 0
    nontrivial = 0
    samples = []
    for i in range(n):
        counter = [0]
        t = rand_tree(rng, rng.choice([1, 2, 3, 4]), counter)
        ncb = rng.choice([0, 1, 1, 2, 3, 4])
        cbs = [rand_callback(rng) for _ in range(ncb)]
        if rng.random() < 0.15:
            cbs = [{c: ('same',) for c, _ in CLASSES} for _ in range(max(1, ncb))]       # identity callbacks
        v = build(mod, t)
        before = show(v)
        log = []
        pycbs = [make_py_callback(mod, r, k, log) for k, r in enumerate(cbs)]
        evals += 1
        try:
            res = mod.transform(v, *pycbs)
        except Exception as exc:      # noqa: BLE001
            violations.append({'key': f'exc|{wire(t)}', 'sig': 'exception', 'kind': 'spec', 'seed': seed, 'tier': tier,
                               'what': f'transform raised {type(exc).__name__}: {exc} on {wire(t)[:150]}'})
            continue
        real = show(res) + ' | ' + ' '.join(log)
        model = drv.ask(f'(transform (cbs {" ".join(cb_wire(r) for r in cbs)}) {wire(t)})')
        if real.strip() != model.strip():
            rr, mm = real.split(' | '), model.split(' | ')
            what = ('result' if rr[0] != mm[0] else 'callback log (order / arguments)')
            violations.append({'key': f'{what}|{wire(t)}|{cbs}', 'sig': what, 'kind': 'spec', 'seed': seed, 'tier': tier,
                               'tree': wire(t), 'callbacks': [cb_wire(r) for r in cbs],
                               'what': f'transform {what} differs: implementation [{real[:220]}] specification [{model[:220]}]'})
        if show(v) != before:
            violations.append({'key': f'input|{wire(t)}', 'sig': 'input-modified', 'kind': 'spec', 'seed': seed, 'tier': tier,
                               'what': f'the input tree was modified: {before[:150]} -> {show(v)[:150]}'})
        if counter[0] >= 2 and ncb >= 1:
            nontrivial += 1
        if len(samples) < 3 and i % 301 == 0:
            samples.append({'tree': wire(t)[:200], 'callbacks': [cb_wire(r) for r in cbs], 'result_and_log': real[:300]})
    drv.close()
    # a tree deeper than Python's recursion limit
    deep = 1
    for _ in range(3000):
        deep = getattr(mod, CLASSES[0][0])(*([deep] + [0] * (CLASSES[0][1] - 1)))
    evals += 1
    try:
        seen = []
        out = mod.transform(deep, lambda x: (seen.append(1), x)[1])
        if out is not deep and not (out == deep) or len(seen) != 3000:
            violations.append({'key': 'deep|wrong', 'sig': 'deep-tree', 'kind': 'spec', 'seed': seed, 'tier': tier,
                               'what': f'transform with an identity callback on a chain of 3000 nested objects: {len(seen)} callback applications'})
    except RecursionError:
        violations.append({'key': 'deep|recursion', 'sig': 'deep-tree', 'kind': 'spec', 'seed': seed, 'tier': tier, 'finding_class': 'deep-tree-recursion',
                           'what': 'transform on a chain of 3000 nested objects raises RecursionError'})
    del deep
    cov = {
        'evaluations': evals,
        'distinct_nontrivial': nontrivial,
        'rule': ('random trees of objects (arity 1..3, with and without position metadata), lists and leaves x 0..4 callbacks given as data '
                 '(identity, class-to-class with or without own metadata, class-to-scalar, returning a list, _replace of a field, a distinct but '
                 'equal copy) run by the real transform and by the Lean model; compared: result incl. metadata of every node, the log of callback '
                 'applications with the argument each one saw, the input afterwards. Non-trivial = at least two objects and one callback.'),
        'samples': samples,
        'traces_validated_against_impl': evals,
    }
    return {'coverage': cov, 'violations': violations, 'broken': broken}


def replay(case, lean):
    out = run(case.get('tier', 'quick'), case.get('seed', 0), lean)
    out['violations'] = [v for v in out['violations'] if v['sig'] == case.get('sig')][:3]
    return out
