"""C14 - parsed objects are values: equality, hashing, copying and repr agree."""
import copy
import os
import pickle
import sys
import random

from common import Driver, codes
import realrun

ID = 'C14'
THEOREMS = [
    'Sourcer.C14_eq_equivalence',
    'Sourcer.C14_eq_iff_same_class_and_fields',
    'Sourcer.C14_obj_ne_other',
    'Sourcer.C14_eq_implies_hash_eq',
    'Sourcer.C14_asdict_order',
    'Sourcer.C14_replace',
]
TIE_MODULES = []
TRANSLATORS = ()
ASSUMPTIONS = [
    'floats/NaN are outside the model (== is reflexive on every modelled value, which is what makes the identity shortcuts sound)',
    'dicts are canonicalised by key order; the builtin hash is a parameter whose tuple hash depends only on element hashes',
    'copy.deepcopy, pickle and eval(repr(x)) are interpreter protocols without a model: exercised on the implementation only',
]

GRAMMAR = '''grammar c14_objects
class Z { pass "z" }
class U { a: "u" }
class B2 { a: "x"; b: "y" }
class T3 { a: "x"; b: "y"; c: "z" }
class W5 { p: "1"; q: "2"; r: "3"; s: "4"; t: "5" }
start = "s"
'''
CLASSES = [('Z', []), ('U', ['a']), ('B2', ['a', 'b']), ('T3', ['a', 'b', 'c']), ('W5', ['p', 'q', 'r', 's', 't']),
           ('Infix', ['left', 'operator', 'right']), ('Prefix', ['operator', 'right']), ('Postfix', ['left', 'operator'])]
CID = {n: i for i, (n, _) in enumerate(CLASSES)}
FIELDS = dict(CLASSES)


# abstract trees: ('none',) ('bool', b) ('int', i) ('str', s) ('list', [..]) ('tuple', [..]) ('dict', [(k, v)..]) ('obj', cls, [..], pos)
def rand_tree(rng, depth):
    c = rng.random()
    if depth <= 0 or c < 0.3:
        k = rng.random()
        if k < 0.15:
            return ('none',)
        if k < 0.3:
            return ('bool', rng.random() < 0.5)
        if k < 0.6:
            return ('int', rng.choice([0, 1, 1, 2, -1, 7, 1000, 2 ** 70]))
        return ('str', rng.choice(['', 'a', 'ab', 'x', '+', 'hello world']))
    if c < 0.45:
        return ('list', [rand_tree(rng, depth - 1) for _ in range(rng.randint(0, 3))])
    if c < 0.55:
        return ('tuple', [rand_tree(rng, depth - 1) for _ in range(rng.randint(0, 3))])
    if c < 0.65:
        keys = rng.sample(['a', 'b', 'x', 'y', 1, 2, 3], rng.randint(0, 3))
        return ('dict', [(k, rand_tree(rng, depth - 1)) for k in keys])
    cls, fields = rng.choice(CLASSES)
    pos = (rng.randint(0, 9), rng.randint(0, 9)) if rng.random() < 0.5 else None
    return ('obj', cls, [rand_tree(rng, depth - 1) for _ in fields], pos)


def mutate(rng, t):
    """a tree that differs from t somewhere (usually in one place)"""
    k = t[0]
    if k in ('list', 'tuple') and t[1] and rng.random() < 0.7:
        i = rng.randrange(len(t[1]))
        xs = list(t[1])
        xs[i] = mutate(rng, xs[i])
        return (k, xs)
    if k == 'dict' and t[1] and rng.random() < 0.7:
        i = rng.randrange(len(t[1]))
        kvs = list(t[1])
        kvs[i] = (kvs[i][0], mutate(rng, kvs[i][1]))
        return (k, kvs)
    if k == 'obj' and t[2] and rng.random() < 0.8:
        i = rng.randrange(len(t[2]))
        xs = list(t[2])
        xs[i] = mutate(rng, xs[i])
        return ('obj', t[1], xs, t[3])
    if k == 'obj':
        if rng.random() < 0.5:
            return ('obj', t[1], t[2], (3, 4) if t[3] != (3, 4) else None)    # only metadata differs
        other = [c for c, f in CLASSES if len(f) == len(t[2]) and c != t[1]]
        return ('obj', rng.choice(other), t[2], t[3]) if other else ('obj', t[1], t[2], (8, 9))
    if k == 'bool':
        return rng.choice([('int', 1 if t[1] else 0), ('bool', not t[1])])   # True == 1 !
    if k == 'int':
        return rng.choice([('int', t[1] + 1), ('bool', t[1] == 1)]) if t[1] in (0, 1) else ('int', t[1] + 1)
    if k == 'str':
        return ('str', t[1] + 'x')
    if k == 'none':
        return rng.choice([('int', 0), ('str', ''), ('list', [])])
    if k == 'list':
        return rng.choice([('tuple', t[1]), ('list', t[1] + [('none',)])])
    if k == 'tuple':
        return rng.choice([('list', t[1]), ('tuple', t[1] + [('int', 1)])])
    return ('none',)


def build(mod, rng, t, shared=None):
    k = t[0]
    if k == 'none':
        return None
    if k in ('bool', 'int'):
        return t[1]
    if k == 'str':
        return ''.join(list(t[1]))          # a fresh string object where CPython allows
    if k == 'list':
        return [build(mod, rng, x, shared) for x in t[1]]
    if k == 'tuple':
        return tuple(build(mod, rng, x, shared) for x in t[1])
    if k == 'dict':
        items = [(kk, build(mod, rng, v, shared)) for kk, v in t[1]]
        rng.shuffle(items)
        return dict(items)
    cls = getattr(mod, t[1])
    o = cls(*[build(mod, rng, x, shared) for x in t[2]])
    if t[3] is not None:
        o._metadata.position_info = t[3]
    return o


def wire(t):
    k = t[0]
    if k == 'none':
        return 'N'
    if k == 'bool':
        return 'T' if t[1] else 'F'
    if k == 'int':
        return f'(i {t[1]})'
    if k == 'str':
        return '(s' + ''.join(f' {c}' for c in codes(t[1])) + ')'
    if k == 'list':
        return '(l' + ''.join(' ' + wire(x) for x in t[1]) + ')'
    if k == 'tuple':
        return '(t' + ''.join(' ' + wire(x) for x in t[1]) + ')'
    if k == 'dict':
        def kw(key):
            return f'(i {key})' if isinstance(key, int) else '(s' + ''.join(f' {c}' for c in codes(key)) + ')'
        items = sorted(t[1], key=lambda kv: (isinstance(kv[0], str), kv[0]))
        return '(d' + ''.join(f' ({kw(kk)} {wire(v)})' for kk, v in items) + ')'
    pos = f' (pos {t[3][0]} {t[3][1]})' if t[3] is not None else ''
    return f'(o {CID[t[1]]}{pos}' + ''.join(' ' + wire(x) for x in t[2]) + ')'


def wire_of_value(v):
    """wire form of a real value (to compare `_replace` results)"""
    if v is None:
        return 'N'
    if v is True:
        return 'T'
    if v is False:
        return 'F'
    if isinstance(v, int):
        return f'(i {v})'
    if isinstance(v, str):
        return '(s' + ''.join(f' {c}' for c in codes(v)) + ')'
    if isinstance(v, list):
        return '(l' + ''.join(' ' + wire_of_value(x) for x in v) + ')'
    if isinstance(v, tuple):
        return '(t' + ''.join(' ' + wire_of_value(x) for x in v) + ')'
    if isinstance(v, dict):
        def kw(key):
            return f'(i {key})' if isinstance(key, int) else '(s' + ''.join(f' {c}' for c in codes(key)) + ')'
        items = sorted(v.items(), key=lambda kv: (isinstance(kv[0], str), kv[0]))
        return '(d' + ''.join(f' ({kw(kk)} {wire_of_value(x)})' for kk, x in items) + ')'
    info = v._metadata.position_info
    pos = f' (pos {info[0]} {info[1]})' if info is not None else ''
    return f'(o {CID[type(v).__name__]}{pos}' + ''.join(' ' + wire_of_value(getattr(v, f)) for f in v._fields) + ')'


def safe_hash(x):
    try:
        return hash(x)
    except TypeError:
        return None


def _shared_mutable(a, b, path='obj'):
    """a mutable value (list, dict, parsed object) that a copy and its original have in common, or None"""
    if isinstance(a, (list, tuple)) and isinstance(b, (list, tuple)) and not hasattr(a, '_fields'):
        if a is b and isinstance(a, list):
            return f'the list at {path}'
        for i, (x, y) in enumerate(zip(a, b)):
            r = _shared_mutable(x, y, f'{path}[{i}]')
            if r:
                return r
    elif isinstance(a, dict) and isinstance(b, dict):
        if a is b:
            return f'the dict at {path}'
        for k in a:
            if k in b:
                r = _shared_mutable(a[k], b[k], f'{path}[{k!r}]')
                if r:
                    return r
    elif hasattr(a, '_fields') and hasattr(a, '_metadata') and hasattr(b, '_fields'):
        if a is b:
            return f'the object at {path}'
        for f in a._fields:
            r = _shared_mutable(getattr(a, f), getattr(b, f, None), f'{path}.{f}')
            if r:
                return r
    return None


def protocol_probes(seed):
    """clauses of the statement that need a grammar of their own"""
    out = []
    n = 0
    # pickling objects of a named grammar that was compiled again under the same name (the later compilation is the one installed)
    name = f'c14_again_{seed}'
    realrun.compile_grammar(f'grammar {name}\nstart = Setting+\nclass Setting {{ key: /[a-z]+/; value: "=" >> /[0-9]+/ }}\nignore / +/\n')
    m2, _ = realrun.compile_grammar(f'grammar {name}\nstart = Setting+\nclass Setting {{ key: /[a-z]+/; value: "=" >> /[0-9]+/; flags: ("!" | "?")* }}\nignore / +/\n')
    try:
        v = m2.parse('depth = 3 ! ? width = 40')
        n += 1
        back = pickle.loads(pickle.dumps(v))
        if back != v or type(back[0]) is not m2.Setting:
            out.append(('pickle-recompiled', f'pickle: objects of a grammar compiled a second time under its name come back as {back!r}'))
    except Exception as exc:      # noqa: BLE001
        out.append(('pickle-recompiled', f'pickle: objects of a grammar compiled a second time under its name: {type(exc).__name__}: {str(exc)[:120]}'))
    # _asdict: exactly the declared fields, in declaration order - whatever they are called, whatever else the object carries
    m3, _ = realrun.compile_grammar('start = Decl\nclass Decl { _doc: ("#" >> /[a-z]+/)?; name: /[a-z]+/ << ":"; type_: /[a-z]+/; _default: ("=" >> /[0-9]+/)? }\nignore / +/\n')
    d = m3.parse('#size n: int = 4')
    n += 2
    if list(d._asdict().items()) != [('_doc', 'size'), ('name', 'n'), ('type_', 'int'), ('_default', '4')]:
        out.append(('asdict-fields', f'_asdict: {d!r}._asdict() gives {d._asdict()!r}'))
    d.resolved = 'somewhere'
    if list(d._asdict()) != ['_doc', 'name', 'type_', '_default']:
        out.append(('asdict-extra', f'_asdict: an attribute attached to the object shows up as a field: {list(d._asdict())}'))
    r = d._replace(name='m')
    if (r.name, r._doc, r._default, d.name) != ('m', 'size', '4', 'n'):
        out.append(('replace-fields', f'_replace: {d!r}._replace(name="m") gives {r!r}'))
    return out, n


def run(tier, seed, lean):
    rng = random.Random(seed)
    mod, _ = realrun.compile_grammar(GRAMMAR)
    drv = Driver()
    n_pools = 500 if tier == 'quick' else 5000
    violations, broken = [], []
    evals = 0
    nontrivial = set()
    samples = []
    kept_for_pickle = []
    stats = {'equal_pairs': 0, 'unequal_pairs': 0, 'replace_cases': 0, 'copy_cases': 0, 'triples': 0}

    def viol(key, what, **kw):
        violations.append({'key': key, 'sig': what.split(':')[0], 'kind': 'spec', 'what': what, 'seed': seed,
                           'tier': tier, **kw})

    for pi in range(n_pools):
        base = rand_tree(rng, rng.choice([1, 2, 3, 4]))
        if base[0] != 'obj':
            cls, fields = rng.choice(CLASSES[1:])
            base = ('obj', cls, [base] + [rand_tree(rng, 1) for _ in fields[1:]], None)
        pool = [base, base, mutate(rng, base), mutate(rng, base), mutate(rng, mutate(rng, base))]
        # same fields, other class of the same arity / metadata only
        same_arity = [c for c, f in CLASSES if len(f) == len(base[2]) and c != base[1]]
        if same_arity:
            pool.append(('obj', rng.choice(same_arity), base[2], base[3]))
        pool.append(('obj', base[1], base[2], (1, 2)))
        vals = [build(mod, rng, t) for t in pool]
        wires = [wire(t) for t in pool]
        for i in range(len(pool)):
            for j in range(len(pool)):
                a, b = vals[i], vals[j]
                evals += 1
                reply = drv.ask(f'(peq {wires[i]} {wires[j]})').split()
                model_eq = reply[0] == '1'
                real_eq = (a == b)
                if real_eq:
                    stats['equal_pairs'] += 1
                else:
                    stats['unequal_pairs'] += 1
                if (a != b) == real_eq:
                    viol(f'ne|{wires[i]}|{wires[j]}', f'a != b is not the negation of a == b: {a!r} vs {b!r}', a=wires[i], b=wires[j])
                if real_eq != (b == a):
                    viol(f'symm|{wires[i]}|{wires[j]}', f'== is not symmetric: {a!r} vs {b!r}', a=wires[i], b=wires[j])
                if real_eq != model_eq:
                    # the model *is* the property here (same class and pairwise equal fields, recursively)
                    viol(f'eq|{wires[i]}|{wires[j]}', f'equality: implementation says {real_eq}, same-class-and-equal-fields says {model_eq}: {a!r} vs {b!r}',
                         a=wires[i], b=wires[j])
                if real_eq:
                    ha, hb = safe_hash(a), safe_hash(b)
                    if ha is None or hb is None or ha != hb:
                        viol(f'hash|{wires[i]}|{wires[j]}', f'hash: equal objects with hashes {ha} and {hb}: {a!r} vs {b!r}', a=wires[i], b=wires[j])
                    if reply[2] != '1':
                        broken.append({'key': 'modelhash', 'kind': 'model', 'what': 'model hash differs on equal values'})
                if i != j and real_eq:
                    nontrivial.add((wires[i], wires[j]))
        # transitivity on the implementation
        for _ in range(6):
            i, j, k = (rng.randrange(len(pool)) for _ in range(3))
            stats['triples'] += 1
            if vals[i] == vals[j] and vals[j] == vals[k] and not vals[i] == vals[k]:
                viol(f'trans|{wires[i]}|{wires[j]}|{wires[k]}', f'== is not transitive: {vals[i]!r}, {vals[j]!r}, {vals[k]!r}')
        # sets / dict keys built from the pool behave like sets of values
        try:
            distinct = len(set(vals))
            classes = []
            for v in vals:
                if not any(v == c for c in classes):
                    classes.append(v)
            if distinct != len(classes):
                viol(f'set|{wires[0]}', f'set: {distinct} distinct members but {len(classes)} equivalence classes in {vals!r}')
        except TypeError as exc:
            viol(f'set|{wires[0]}', f'set: building a set of parsed objects raised {exc!r}')
        # _asdict / _replace on the first member
        o, t = vals[0], pool[0]
        names = FIELDS[t[1]]
        evals += 1
        if list(o._asdict().keys()) != list(names) or any(o._asdict()[n] is not getattr(o, n) for n in names):
            viol(f'asdict|{wires[0]}', f'_asdict: {o._asdict()!r} for fields {names}')
        if names:
            ks = rng.sample(range(len(names)), rng.randint(1, len(names)))
            news = {i: rng.choice([('none',), ('none',), rand_tree(rng, 1)]) for i in ks}
            before = wire_of_value(o)
            res = o._replace(**{names[i]: build(mod, rng, nv) for i, nv in news.items()})
            stats['replace_cases'] += 1
            evals += 1
            model = drv.ask(f'(replace {wires[0]} ' + ' '.join(f'({i} {wire(nv)})' for i, nv in news.items()) + ')')
            got = wire_of_value(res)
            if got != model:
                viol(f'replace|{wires[0]}|{sorted(news.items())}',
                     f'_replace: {o!r}._replace({ {names[i]: nv for i, nv in news.items()} }) gave {got}, expected {model}')
            if wire_of_value(o) != before or res is o:
                viol(f'replace-orig|{wires[0]}', f'_replace: the original was modified or returned: {o!r}')
        # copying, pickling, repr (implementation only)
        if pi % 4 == 0:
            stats['copy_cases'] += 1
            evals += 1
            try:
                c = copy.deepcopy(o)
                if not (c == o) or c is o or wire_of_value(c) != wire_of_value(o):
                    viol(f'deepcopy|{wires[0]}', f'deepcopy: copy {c!r} of {o!r} is not an equal, independent object with the same metadata')
                sh = _shared_mutable(c, o)
                if sh is not None:
                    viol(f'deepcopy-shared|{wires[0]}', f'deepcopy: the copy of {o!r} shares {sh} with the original')
                p = pickle.loads(pickle.dumps(o))
                kept_for_pickle.append(o)
                if not (p == o) or wire_of_value(p) != wire_of_value(o):
                    viol(f'pickle|{wires[0]}', f'pickle: round trip of {o!r} gave {p!r}')
                e = eval(repr(o), vars(mod))
                if not (e == o):
                    viol(f'repr|{wires[0]}', f'repr: eval(repr(x)) of {o!r} gave {e!r}')
            except Exception as exc:          # noqa: BLE001
                viol(f'copy-exc|{wires[0]}', f'copy: deepcopy/pickle/repr raised {type(exc).__name__}: {exc}')
        if len(samples) < 3 and pi % 97 == 0:
            samples.append({'pool': wires[:4]})
    drv.close()
    # equal objects have equal hashes - also an object that was hashed, pickled and loaded by another process (string hashes
    # are salted per process), compared there with an equal object built in that process
    crossed = 0
    try:
        import subprocess, common
        objs = [o for o in kept_for_pickle if safe_hash(o) is not None][:40]
        child = ('import sys, pickle\n'
                 f'sys.path.insert(0, {common.REPO!r})\n'
                 'from sourcer import Grammar\n'
                 f'mod = Grammar({GRAMMAR!r})\n'
                 'objs = pickle.loads(bytes.fromhex(sys.stdin.read()))\n'
                 'bad = []\n'
                 'for i, o in enumerate(objs):\n'
                 '    e = eval(repr(o), vars(mod))\n'
                 '    if not (o == e and hash(o) == hash(e)):\n'
                 '        bad.append((i, repr(o)[:120], o == e, hash(o) == hash(e)))\n'
                 'print(repr(bad))\n')
        env = dict(os.environ, PYTHONHASHSEED=str(1000 + seed))
        p = subprocess.run([sys.executable, '-c', child], input=pickle.dumps(objs).hex(), capture_output=True, text=True, timeout=120, env=env)
        if p.returncode != 0:
            viol('pickle-cross|error', f'pickle: loading {len(objs)} pickled objects in another process failed: {p.stderr.strip()[-200:]}')
        else:
            crossed = len(objs)
            for i, r, eq, heq in eval(p.stdout.strip() or '[]'):
                viol(f'pickle-cross|{r}', f'pickle: {r} hashed, pickled and loaded in a process with another hash seed: equal to a rebuilt copy: {eq}, same hash: {heq}')
    except subprocess.TimeoutExpired:
        broken.append({'key': 'pickle-cross-timeout', 'what': 'the cross-process pickle probe timed out'})
    stats['pickled_across_processes'] = crossed
    probes, pn = protocol_probes(seed)
    evals += pn
    for key, what in probes:
        viol(key, what)
    # a tree deeper than Python's recursion limit (parsing builds such trees without difficulty): every operation of the
    # property still has to work on it
    deep_a = deep_b = 1
    for _ in range(3000):
        deep_a, deep_b = mod.U(deep_a), mod.U(deep_b)
    for opname, op in (('==', lambda: deep_a == deep_b), ('hash', lambda: hash(deep_a) == hash(deep_b)), ('repr', lambda: len(repr(deep_a)) > 0),
                       ('deepcopy', lambda: copy.deepcopy(deep_a) is not None), ('pickle', lambda: len(pickle.dumps(deep_a)) > 0),
                       ('_replace', lambda: deep_a._replace(a=2).a == 2), ('_asdict', lambda: list(deep_a._asdict()) == ['a'])):
        evals += 1
        try:
            if op() is not True:
                viol(f'deep|{opname}', f'deep tree: {opname} on a chain of 3000 nested objects gives a wrong answer')
        except RecursionError:
            viol(f'deep|{opname}', f'deep tree: {opname} on a chain of 3000 nested objects raises RecursionError', finding_class='deep-tree-recursion')
        except Exception as exc:          # noqa: BLE001
            viol(f'deep|{opname}', f'deep tree: {opname} on a chain of 3000 nested objects raises {type(exc).__name__}: {str(exc)[:100]}')
    del deep_a, deep_b
    evals += crossed
    cov = {
        'evaluations': evals,
        'distinct_nontrivial': len(nontrivial),
        'rule': ('pools of result trees (classes of arity 0..5, Infix/Prefix/Postfix, fields holding None, bools, ints, strings, lists, tuples, '
                 'dicts, nested objects, with and without position metadata) built to contain equal-but-not-identical, almost-equal '
                 '(one place mutated, True vs 1, list vs tuple, other class of the same arity, metadata only) members; all ordered pairs '
                 'are compared: implementation == / != / hash against the Lean peq; _asdict, _replace (incl. explicit None) against the '
                 'model; deepcopy, pickle, eval(repr) on the implementation. Non-trivial = distinct pair of non-identical equal trees.'),
        'samples': samples,
        'traces_validated_against_impl': evals,
        **stats,
    }
    return {'coverage': cov, 'violations': violations, 'broken': broken}


def replay(case, lean):
    """pools are a deterministic function of the seed: re-run it and keep the violations of the same kind"""
    out = run(case.get('tier', 'quick'), case.get('seed', 0), lean)
    out['violations'] = [v for v in out['violations'] if v['sig'] == case.get('sig')][:3]
    return out
