"""C18 - parse calls are isolated from each other."""
import re
import gc
import random
import sys
import threading

import realrun

ID = 'C18'
THEOREMS = [
    'Sourcer.C18_interleaving',
    'Sourcer.C18_interleaving_any_number',
    'Sourcer.C18_nested_call_is_invisible',
    'Sourcer.C07_memo_write_once',
    'Sourcer.C08_match_outcome',
]
TIE_MODULES = []
TRANSLATORS = ()
ASSUMPTIONS = [
    'the Lean model has no state shared between calls (per-call memo/stack/line tables): its theorems are the oracle for the histories below, not evidence that '
    'the code shares none; thread scheduling, the GIL and generator re-entrancy are runtime behaviour exercised on the implementation only',
]

GRAMMAR = '''```
class Boom(Exception):
    pass

def check(word):
    if word == 'boom':
        raise Boom(word)
    return word

def inner(text):
    # a nested parse started from inline Python in the middle of another parse
    try:
        return parse(text)
    except InputError as exc:
        return ('error', type(exc).__name__)
```
ignore /[ \\t]+/
start = Item+
Item = Bracket | Pair | Word | Newline
Word = /[a-z]+/ |> `check`
Bracket = "[" >> (/[^\\[\\]]*/ |> `inner`) << "]"
class Pair { key: Word; pass "="; value: Word | Bracket }
Newline = /\\n/
Number = /[0-9]+/ |> `int`
'''
ENTRIES = ['__module__', 'Word', 'Pair', 'Number', 'Item']


def fresh_text(rng, length=None):
    """a text built at run time (never an interned constant), optionally of a given length"""
    words = ['ab', 'cd', 'x', 'boom', 'k=v', '[ab cd]', '[k=v x]', '\n', '12', '[x [y] z]', '=', ']', 'q=[a]']
    parts = []
    while True:
        parts.append(rng.choice(words))
        t = ' '.join(parts)
        if length is None and len(parts) >= rng.randint(1, 6):
            break
        if length is not None and len(t) >= length:
            t = t[:length]
            break
    return ''.join(list(t))


def positions(v):
    """(start, end) as (index, line, column) of every instance in a result: the printed value only shows the indexes"""
    out = []
    stack = [v]
    while stack and len(out) < 12:
        x = stack.pop()
        if isinstance(x, (list, tuple)) and not hasattr(x, '_fields'):
            stack.extend(reversed(x))
        elif hasattr(x, '_fields') and hasattr(x, '_metadata'):
            info = x._metadata.position_info
            if info is not None:
                try:
                    out.append((tuple(info.start), tuple(info.end)))
                except (AttributeError, TypeError):
                    out.append(('raw', tuple(info)))
            stack.extend(reversed([getattr(x, f) for f in x._fields]))
    return tuple(out)


def call(mod, entry, text, pos, full):
    parse = mod.parse if entry == '__module__' else getattr(mod, entry).parse
    try:
        v = parse(text, pos, full)
        return ('V', realrun.pval_api(v), positions(v))
    except Exception as exc:      # noqa: BLE001
        n = type(exc).__name__
        if n == 'PartialParseError':
            lp = exc.last_position
            return ('P', realrun.pval_api(exc.partial_result), tuple(lp), positions(exc.partial_result))
        if n == 'ParseError':
            return ('E', tuple(exc.position))
        return ('X', n, str(exc)[:40])


def run(tier, seed, lean):
    rng = random.Random(seed)
    violations = []
    evals = 0
    samples = []
    n_hist = 60 if tier == 'quick' else 600
    nontrivial = 0
    for h in range(n_hist):
        # every other history runs on a module with a `grammar <name>` header (rules are then reached through a context object)
        gtext = GRAMMAR if h % 2 == 0 else f'grammar c18h_{seed}_{h}\n' + GRAMMAR
        mod, _ = realrun.compile_grammar(gtext)
        history = []
        length = rng.choice([None, None, 12, 20])
        for _ in range(rng.randint(4, 14)):
            entry = rng.choice(ENTRIES)
            text = fresh_text(rng, length)
            if history and rng.random() < 0.3:
                # the previous text continued on a new line: nothing computed for the shorter text may be carried over
                text = history[-1][1] + '\n' + fresh_text(rng, None)
            pos = rng.choice([0, 0, 0, rng.randint(0, max(0, len(text) - 1))])
            full = rng.random() < 0.7
            history.append((entry, text, pos, full))
        # reference: every call alone on a freshly compiled module
        refs = []
        for ri, (entry, text, pos, full) in enumerate(history):
            ref_mod, _ = realrun.compile_grammar(GRAMMAR if h % 2 == 0 else f'grammar c18r_{seed}_{h}_{ri}\n' + GRAMMAR)
            refs.append(call(ref_mod, entry, ''.join(list(text)), pos, full))
        kinds = {r[0] for r in refs}
        if len(kinds) >= 3:
            nontrivial += 1
        # no exception other than the one the inline Python raises on purpose may escape, also from calls whose result
        # contains objects of a nested parse
        for ri, r in enumerate(refs):
            if r[0] == 'X' and r[1] != 'Boom':
                entry, text, pos, full = history[ri]
                violations.append({'key': f'escape|{r[1]}|{text}', 'sig': f'escape|{r[1]}', 'kind': 'spec', 'seed': seed,
                                   'what': f'{entry}.parse({text!r}, {pos}, {full}) on a fresh module raises {r[1]}: {r[2]} '
                                           f'(the inline Python of this grammar raises nothing but Boom)'})
        # the history on one module, with other grammars compiled in between and texts freed as we go
        got = []
        for i, (entry, text, pos, full) in enumerate(history):
            t = ''.join(list(text))
            got.append(call(mod, entry, t, pos, full))
            del t
            if rng.random() < 0.3:
                gc.collect()
            if rng.random() < 0.2:
                realrun.compile_grammar(f'grammar c18_side_{seed}_{h}_{i}\nstart = "z"+\nWord = "q"\n')
            evals += 1
        for i, (g, r) in enumerate(zip(got, refs)):
            if g != r:
                violations.append({'key': f'history|{seed}|{h}|{i}', 'sig': 'history', 'kind': 'spec', 'seed': seed,
                                   'history': [list(x) for x in history[:i + 1]],
                                   'what': f'call {i} of a history ({history[i][0]}.parse({history[i][1]!r}, {history[i][2]}, {history[i][3]})) gave {str(g)[:150]}, '
                                           f'alone on a fresh module it gives {str(r)[:150]}; earlier calls: {[x[1] for x in history[:i]][-3:]}'})
                break
        if len(samples) < 2 and h % 23 == 0:
            samples.append({'history': [list(x) for x in history[:5]], 'outcomes': [list(map(str, r))[:2] for r in refs[:5]]})
    # threads: the same calls concurrently, with a very small switch interval
    v, n = threads(tier, rng)
    violations += v
    evals += n
    # members of one extends-family share their runtime: calls on one member do not show in another
    v, n = family_histories(tier, seed, rng)
    violations += v
    evals += n
    # inline Python that builds a stateful function: it is evaluated when the rule runs, in every call (nothing made by one call
    # is there for the next)
    sm, _ = realrun.compile_grammar('```\nimport itertools\ndef numberer():\n    c = itertools.count(1)\n    return lambda ws: [(next(c), w) for w in ws]\n```\n'
                                    'start = Line\nLine = (Word // / +/) |> `numberer()`\nWord = /[a-z]+/ |> `lambda w, seen=[]: (w, len(seen), seen.append(w))[:2]`\n')
    outs = []
    for text in ('ab cd', 'ab cd', 'ab !', 'ab cd'):
        evals += 1
        try:
            outs.append(repr(sm.parse(text)))
        except Exception as exc:      # noqa: BLE001
            outs.append(type(exc).__name__)
    # the numbering made by `numberer()` starts afresh in every call (the default-argument list of the other lambda is the
    # user's own shared state and is not compared)
    nums = [re.findall(r'\((\d+), ', o) for o in outs]
    if nums[0] != ['1', '2'] or nums[1] != ['1', '2'] or nums[3] != ['1', '2']:
        violations.append({'key': 'stateful-function', 'sig': 'stateful-function', 'kind': 'spec', 'seed': seed,
                           'what': f'a function built by inline Python (`numberer()`) keeps its state between calls: numbers of four calls {nums}'})
    # an object of the unfinished outer parse that travels through a nested parse (as the argument of a class with parameters)
    # keeps the position it has in the outer text
    gm, _ = realrun.compile_grammar('start = /\\s*/ >> (Word |> `lambda w: Holder.parse(w)("qqqqqqqqqqqq")`)\nclass Word { v: /[a-z]+/ }\n'
                                    'class Holder(w) {\n inner: `w`\n q: /q+/\n}\n')
    for text, want in (('\n\n   abc', (5, 3, 4)), ('abc', (0, 1, 1)), (' \nab', (2, 2, 1))):
        evals += 1
        try:
            st = gm.parse(text).inner._metadata.position_info.start
            got = (st.index, st.line, st.column)
        except Exception as exc:      # noqa: BLE001
            got = ('X', type(exc).__name__)
        if got != want:
            violations.append({'key': f'nested-foreign|{text}', 'sig': 'nested-foreign', 'kind': 'spec', 'seed': seed, 'input': text,
                               'finding_class': 'nested-parse-foreign-object' if got[0] == want[0] else 'none',
                               'what': f'an object of the outer parse that was handed to a nested parse starts at {got} after parse({text!r}), '
                                       f'its place in the outer text is {want}'})
    # modules compiled later (extending this one, or reusing its name) do not alter an existing module
    v, n = later_grammars(seed)
    violations += v
    evals += n
    cov = {
        'evaluations': evals,
        'distinct_nontrivial': nontrivial,
        'rule': ('random histories of 4-14 calls on one module (module-level parse, R.parse, C.parse; texts built at run time, equal lengths within a '
                 'history so that freed texts are reused by the allocator; offsets; fullparse on/off; calls that fail, that raise from inline Python, and '
                 'that start nested parses from inline Python; garbage collection and Grammar() calls in between): every outcome incl. line/column must '
                 'equal the outcome of the same call alone on a freshly compiled module. 2-4 threads parsing concurrently with a 1e-6 s switch interval. '
                 'Grammars that extend a module or reuse its name must not alter it. Non-trivial = history with at least three outcome classes.'),
        'samples': samples,
        'histories': n_hist,
    }
    return {'coverage': cov, 'violations': violations, 'broken': []}


def threads(tier, rng):
    mod, _ = realrun.compile_grammar(GRAMMAR)
    old = sys.getswitchinterval()
    sys.setswitchinterval(1e-6)
    bad = []
    n = 0
    try:
        for round_ in range(6 if tier == 'quick' else 40):
            calls = []
            for _ in range(rng.randint(2, 4)):
                entry = rng.choice(ENTRIES)
                text = ' '.join(fresh_text(rng) for _ in range(rng.randint(20, 60)))
                calls.append((entry, text, 0, rng.random() < 0.7))
            refs = [call(mod, *c) for c in calls]
            results = [None] * len(calls)

            def work(i):
                for _ in range(5):
                    results[i] = call(mod, *calls[i])
            ts = [threading.Thread(target=work, args=(i,)) for i in range(len(calls))]
            for t in ts:
                t.start()
            for t in ts:
                t.join()
            n += len(calls) * 5
            for i, (g, r) in enumerate(zip(results, refs)):
                if g != r:
                    bad.append({'key': f'threads|{round_}|{i}', 'sig': 'threads', 'kind': 'spec',
                                'what': f'a parse running concurrently with {len(calls) - 1} others gave {str(g)[:120]}, sequentially {str(r)[:120]}'})
                    break
    finally:
        sys.setswitchinterval(old)
    return bad, n


# a family of modules that share one runtime (a derived module imports it from its parent): the members differ in what
# they ignore and in what they override, and use equal literals as template arguments
FAMILY = [
    'grammar {p}a\nstart = Twice("ab") | Item+\nTwice(x) = [x, x]\nItem = Wrap("(", ")") | /[a-z]/\nWrap(o, c) = o >> /[a-z]*/ << c\n',
    'grammar {p}b extends {p}a\nignore / +/\noverride start = Twice("ab") | Item+\n',
    'grammar {p}c extends {p}b\noverride Item = Wrap("[", "]") | Wrap("(", ")") |> `lambda s: s.upper()` | super.Item\n',
]
FAMILY_TEXTS = ['abab', 'ab ab', '(ab)x', '[ab] (c)', 'a b', '(a)(b)', 'ab', '[x]y', '( a)', '']


def family_histories(tier, seed, rng):
    """calls on the members of one family in random order: each outcome equals that of the same call made alone on a
    freshly compiled family"""
    bad = []
    n = 0
    refs = {}

    def family(prefix):
        return [realrun.compile_grammar(t.replace('{p}', prefix))[0] for t in FAMILY]

    def ref(mi, entry, text, full):
        key = (mi, entry, text, full)
        if key not in refs:
            refs[key] = call(family(f'c18f{seed}_r{len(refs)}_')[mi], entry, text, 0, full)
        return refs[key]

    for h in range(10 if tier == 'quick' else 80):
        mods = family(f'c18f{seed}_h{h}_')
        history = [(rng.randrange(3), rng.choice(['__module__', '__module__', 'Item']), rng.choice(FAMILY_TEXTS), rng.random() < 0.7)
                   for _ in range(rng.randint(3, 8))]
        for i, (mi, entry, text, full) in enumerate(history):
            g = call(mods[mi], entry, ''.join(list(text)), 0, full)
            r = ref(mi, entry, text, full)
            n += 1
            if g != r:
                bad.append({'key': f'family|{seed}|{h}|{i}', 'sig': 'family-history', 'kind': 'spec', 'seed': seed,
                            'history': [list(x) for x in history[:i + 1]],
                            'what': f'call {i} of a history over a family of three modules ({"abc"[mi]}.{entry}.parse({text!r}, 0, {full})) gave {str(g)[:120]}, '
                                    f'alone on a freshly compiled family it gives {str(r)[:120]}; earlier calls: {[("abc"[x[0]], x[2]) for x in history[:i]][-4:]}'})
                break
    return bad, n


def later_grammars(seed):
    bad = []
    n = 0
    name = f'c18_named_{seed}'
    first, _ = realrun.compile_grammar(f'grammar {name}\nstart = ["let", Word, Number]\nWord = /[a-z]+/\nNumber = /[0-9]+/ |> `int`\nignore / +/\n')
    inputs = ['let x 12', 'let x', 'x 12', 'let  abc 7']
    rule_entries = lambda m: [call(m, 'start', t, 0, True) for t in inputs] + [call(m, 'Word', 'ab', 0, True)]       # noqa: E731
    before = [call(first, '__module__', t, 0, True) for t in inputs] + [call(first, 'Number', '7', 0, True)] + rule_entries(first)
    child, _ = realrun.compile_grammar(f'grammar {name}_child extends {name}\nNumber = /[0-9]+/ |> `lambda s: -int(s)`\n')
    child_before = [call(child, '__module__', t, 0, True) for t in inputs]
    # the name is reused for a different grammar
    second, _ = realrun.compile_grammar(f'grammar {name}\nstart = ["LET", Word]\nWord = /[A-Z]+/\nNumber = /[0-9]+/ |> `lambda s: -int(s)`\n')
    after = [call(first, '__module__', t, 0, True) for t in inputs] + [call(first, 'Number', '7', 0, True)] + rule_entries(first)
    child_after = [call(child, '__module__', t, 0, True) for t in inputs]
    n += 2 * len(inputs) + 2
    if after != before:
        k = next(i for i in range(len(after)) if after[i] != before[i])
        bad.append({'key': 'later|first', 'sig': 'later-grammars', 'kind': 'spec',
                    'what': f'compiling another grammar under the same name altered the existing module: {before[k]} became {after[k]}'})
    if child_after != child_before:
        k = next(i for i in range(len(child_after)) if child_after[i] != child_before[i])
        bad.append({'key': 'later|child', 'sig': 'later-grammars', 'kind': 'spec',
                    'what': f'reusing the name of its parent altered an existing derived module: {child_before[k]} became {child_after[k]}'})
    # what Grammar() makes of a description does not depend on what was compiled under the names of its ancestors before
    from props import c13
    b2, n2 = c13.name_reuse_scenarios(f'c18nr{seed}', realrun)
    bad += [dict(x, sig='later-grammars') for x in b2]
    n += n2
    # the same with a dotted name (installed as a package entry)
    dn = f'c18pkg{seed}.lang'
    d1, _ = realrun.compile_grammar(f'grammar {dn}\nstart = Word // ","\nWord = /[a-z]+/\n')
    dins = ['ab,cd', '1;2', 'ab', '']
    dbefore = [call(d1, '__module__', t, 0, True) for t in dins] + [d1.__doc__]
    realrun.compile_grammar(f'grammar {dn}\nstart = Num // ";"\nNum = /[0-9]+/ |> `int`\n')
    dafter = [call(d1, '__module__', t, 0, True) for t in dins] + [d1.__doc__]
    n += len(dins)
    if dafter != dbefore:
        k = next(i for i in range(len(dafter)) if dafter[i] != dbefore[i])
        bad.append({'key': 'later|dotted', 'sig': 'later-grammars', 'kind': 'spec',
                    'what': f'compiling another grammar under the same dotted name altered the existing module: {str(dbefore[k])[:80]} became {str(dafter[k])[:80]}'})
    return bad, n


def replay(case, lean):
    out = run('quick', case.get('seed', 0), lean)
    out['violations'] = [v for v in out['violations'] if v.get('sig') == case.get('sig')][:3]
    return out
