"""C07 - packrat guarantee: a rule is evaluated at most once per position."""
import random
import sys
import time

from common import Driver, time_limit, Timeout
import realrun

ID = 'C07'
THEOREMS = [
    'Sourcer.C07_memo_transparent',
    'Sourcer.C07_started_only_on_miss',
    'Sourcer.C07_hit_returns_stored',
    'Sourcer.C07_at_most_once',
    'Sourcer.C07_evaluation_bound',
    'Sourcer.C07_memo_write_once',
]
TIE_MODULES = []
TRANSLATORS = ()
ASSUMPTIONS = [
    'rule bodies are deterministic resumptions (Prog); Python generator mechanics (send/yield) are modelled, not verified',
    'C07_at_most_once assumes no key is requested while it is on the stack (run-time form of "no left recursion")',
]


# ---------------------------------------------------------------------------------------------
# part 1: the real `_run` driven with synthetic generator functions, against the Lean machine

def rand_fprog(rng, k, keys_after, depth):
    if depth == 0 or not keys_after or rng.random() < 0.25:
        return ('ret', rng.randrange(0, 6))
    k2 = rng.choice(keys_after)
    nb = rng.randint(0, 3)
    branches = {}
    for r in rng.sample(range(0, 6), nb):
        branches[r] = rand_fprog(rng, k, keys_after, depth - 1)
    return ('call', k2, branches, rand_fprog(rng, k, keys_after, depth - 1))


def fprog_wire(p):
    if p[0] == 'ret':
        return f'(ret {p[1]})'
    bs = ' '.join(f'({r} {fprog_wire(b)})' for r, b in sorted(p[2].items()))
    return f'(call {p[1]} {bs + " " if bs else ""}(else {fprog_wire(p[3])}))'


class Fail_(Exception):
    def __init__(self, rid):
        self.rid = rid


def run_real_machine(_run, bodies, k0):
    log = []
    funcs = {}

    def errfn(rid):
        def raise_(text, pos):
            raise Fail_(rid)
        raise_.rid = rid
        return raise_

    def encode(rid):
        # even ids are successes, odd ids failures (whose `_result` is an error function)
        return (True, rid, 0) if rid % 2 == 0 else (False, errfn(rid), 0)

    def decode(res):
        return res[1] if res[0] else res[1].rid

    def make(f):
        def g(text, pos):
            k = f * 10 + pos
            log.append(f'b {k}')
            node = bodies.get(k, ('ret', 0))
            while node[0] == 'call':
                k2 = node[1]
                res = yield (3, funcs[k2 // 10], k2 % 10)
                rid = decode(res)
                log.append(f's {k} {rid}')
                node = node[2].get(rid, node[3])
            log.append(f'r {k} {node[1]}')
            yield encode(node[1])
        return g

    for f in {k // 10 for k in bodies} | {k0 // 10}:
        funcs[f] = make(f)
    try:
        v = _run('x' * 10, k0 % 10, funcs[k0 // 10], False)
        log.append(f'done {v}')
    except Fail_ as exc:
        log.append(f'done {exc.rid}')
    return ' '.join(log)


def part1(tier, rng, drv, _run):
    n = 1500 if tier == 'quick' else 15000
    bad = []
    evals = 0
    nontrivial = set()
    samples = []
    hits_total = 0
    for i in range(n):
        nf = rng.randint(1, 4)
        keys = sorted(rng.sample([f * 10 + p for f in range(nf) for p in range(0, 5)], rng.randint(2, min(9, nf * 5))))
        bodies = {}
        for idx, k in enumerate(keys):
            bodies[k] = rand_fprog(rng, k, keys[idx + 1:], rng.randint(1, 4))
        k0 = keys[0]
        wire = f'(machine (start {k0}) (fuel 5000) (bodies ' + ' '.join(f'({k} {fprog_wire(p)})' for k, p in bodies.items()) + '))'
        model = drv.ask(wire)
        model_trace = model.split(' | ')[0]
        real_trace = run_real_machine(_run, bodies, k0)
        evals += 1
        begins = [t for t in real_trace.split(' b ')]
        nb = real_trace.count('b ')
        ns = real_trace.count('s ')
        if ns > nb - 1:
            hits_total += ns - (nb - 1)
            nontrivial.add(wire)
        if len(samples) < 3 and ns > nb:
            samples.append({'bodies': wire, 'trace': real_trace})
        if model_trace != real_trace:
            bad.append({'key': 'machine|' + wire, 'kind': 'model', 'request': wire, 'model': model_trace,
                        'real': real_trace,
                        'what': f'real _run trace differs from the Lean machine: real "{real_trace[:150]}" model "{model_trace[:150]}"'})
        # the property predicate itself, on the implementation's trace: no key begins twice
        toks = real_trace.split(' ')
        started = [toks[j + 1] for j in range(len(toks) - 1) if toks[j] == 'b']
        if len(started) != len(set(started)):
            bad.append({'key': 'machine-prop|' + wire, 'kind': 'spec', 'request': wire, 'real': real_trace,
                        'what': f'a body was started twice for one key: {real_trace[:200]}'})
    return evals, nontrivial, samples, bad, hits_total


# ---------------------------------------------------------------------------------------------
# part 2: end to end, grammars whose rule bodies log their own evaluation

PRELUDE = '''```
LOG = []
def note(tag, pos):
    LOG.append((tag, pos))
    return None
```
'''

FAMILIES = [
    # (name, grammar, input generator, number of rules)
    ('expr-3-way', PRELUDE + '''start = E
E = `note('E', _pos)` >> ([T, "+", E] | [T, "-", E] | T)
T = `note('T', _pos)` >> (["(", E, ")"] | "a")
''', lambda d: '(' * d + 'a' + ')' * d, 3),
    ('lookahead-chain', PRELUDE + '''start = `note('start', _pos)` >> ([Expect(A), Expect(B), A, B, start] | [Expect(A), A, ExpectNot(A), B] | [A, B] | A)
A = `note('A', _pos)` >> ("a" | "b" >> "a")
B = `note('B', _pos)` >> (A | "b")*
''', lambda d: 'ab' * d + 'a', 3),
    ('nested-opt', PRELUDE + '''start = X
X = `note('X', _pos)` >> (["a", X, "b"] | ["a", X, "c"] | ["a", X] | "a")
''', lambda d: 'a' * d + 'c' * (d // 2), 2),
    ('failing-rule', PRELUDE + '''start = [A, "x"] | [A, "y"] | [ExpectNot(A), B, "!"] | [B, "?"] | [Expect(B), B, B]
A = `note('A', _pos)` >> ("a" >> C)
B = `note('B', _pos)` >> (/[a-z]/ << Opt(C))
C = `note('C', _pos)` >> ("d" | "e")
''', lambda d: ['bc?', 'ae', 'adx', 'ady', 'b!', 'ad?', 'bdbd'][d % 7], 4),
    ('three-references', PRELUDE + '''start = [Expect(L), Expect(L), L, "x"] | [Expect(L), L, Expect(L), "y"] | [Expect(L), Expect(L), Expect(L), L]
L = `note('L', _pos)` >> /[ab]/*
''', lambda d: ['abx', 'abay', 'ab', 'x', 'y', ''][d % 6], 2),
    ('through-parameter', PRELUDE + '''start = [Expect(L), Wrap(L), "x"] | [Both(L), "y"] | [Expect(Wrap(L)), L, "z"] | [Twice(L, L), L]
Wrap(x) = x
Both(x) = [Expect(x), x]
Twice(x, y) = [Expect(x), Expect(y)]
L = `note('L', _pos)` >> /[ab]/*
''', lambda d: ['abx', 'aby', 'abz', 'ab', 'x', 'bbb'][d % 6], 5),
]

IDENTITY = PRELUDE + '''start = [Expect(L), L, Expect(P), P] | [L, P]
L = `note('L', _pos)` >> /[ab]/*
class P { x: `note('P', _pos)` >> "c"; y: L }
'''


# template calls whose argument is an unhashable value, a keyword value, a rule: equal calls at one position share one evaluation
TEMPLATE_ARGS = PRELUDE + '''start = let xs = /[ab]/* in ((Tail(xs) << "!") | (Tail(xs) << "?") | [Tail(xs), Expect(Kw(n=`1`)), Kw(n=`1`)])
Tail(v) = `note('Tail', _pos)` >> /c*/
Kw(n) = `note('Kw', _pos)` >> `n`
'''


# a reference written with an empty argument list is the same rule (one memo entry), also for classes and for rules
# defined with an empty parameter list; a synonym rule does not hide the rule behind it
EMPTY_ARGS = PRELUDE + '''start = (X() << "b") | (X << "c") | [Foo(), "b"] | [Foo, "c"] | (Y << "d") | (Y() << "e") | [Syn, "!"] | [X, "?"]
X = `note('X', _pos)` >> "a"
Y() = `note('Y', _pos)` >> "a"
Syn = X
class Foo { x: `note('Foo', _pos)` >> "a" }
'''


def part2(tier):
    bad = []
    evals = 0
    samples = []
    nontrivial = 0
    depths = [1, 2, 3, 5, 8, 13, 21, 40] if tier == 'quick' else [1, 2, 3, 5, 8, 13, 21, 40, 80, 150, 200]
    for name, gtext, gen_input, nrules in FAMILIES:
        module, _ = realrun.compile_grammar(gtext)
        for d in depths:
            text = gen_input(d)
            del module.LOG[:]
            try:
                with time_limit(30):
                    try:
                        module.parse(text)
                    except (module.ParseError, module.PartialParseError):
                        pass
            except Timeout:
                bad.append({'key': f'{name}|{d}', 'kind': 'spec', 'grammar': gtext, 'input': text,
                            'what': f'family {name}: parse did not finish in 30 s on input of length {len(text)} (memoisation lost?)'})
                continue
            log = list(module.LOG)
            evals += 1
            dup = [x for x in set(log) if log.count(x) > 1] if len(log) < 20000 else []
            if len(log) != len(set(log)):
                dup = dup or ['(many)']
            bound = nrules * (len(text) + 1)
            if len(log) > 1:
                nontrivial += 1
            if dup:
                bad.append({'key': f'{name}|{d}', 'kind': 'spec', 'grammar': gtext, 'input': text,
                            'what': f'family {name}: rule bodies evaluated more than once at one position: {sorted(dup)[:4]} on {text[:40]!r}'})
            elif len(log) > bound:
                bad.append({'key': f'{name}|{d}|bound', 'kind': 'spec', 'grammar': gtext, 'input': text,
                            'what': f'family {name}: {len(log)} body evaluations exceed rules x (len+1) = {bound}'})
            if d == depths[-1]:
                samples.append({'family': name, 'input_length': len(text), 'body_evaluations': len(log), 'bound': bound})
    # ... also for rules that are nothing but a literal (tokens), with and without an ignore declaration
    for gtext in ('ignore / +/\nstart = Stmt*\nStmt = [Expect(Name), Name, "=", Expect(Number), Number, ";"]\nName = /[a-z]+/\nNumber = /[0-9]+/\n',
                  'start = Stmt*\nStmt = [Expect(Kw), Kw, Expect(Data), Data]\nKw = "data"i\nData = /[0-9a-f]+/\n'):
        tm, _ = realrun.compile_grammar(gtext)
        for text in ('alpha = 12; beta = 345;', 'DaTa0fa3', 'dataff'):
            try:
                v = tm.parse(text)
            except Exception:      # noqa: BLE001
                continue
            evals += 1
            for st in v:
                if any(st[i] is not st[i + 1] for i in range(0, len(st) - 1, 3 if len(st) == 6 else 2)):
                    bad.append({'key': f'identity-token|{text}', 'kind': 'spec', 'grammar': gtext, 'input': text,
                                'what': f'a lookahead and the reference after it at one position returned different objects for a token rule on {text!r}: {st}'})
                    break
    # identity of memoised outcomes
    module, _ = realrun.compile_grammar(IDENTITY)
    for text in ['abcab', 'c', 'bbcb', 'abc']:
        del module.LOG[:]
        try:
            v = module.parse(text)
        except (module.ParseError, module.PartialParseError) as exc:
            v = getattr(exc, 'partial_result', None)
        evals += 1
        if isinstance(v, list) and len(v) == 4:
            if v[0] is not v[1] or v[2] is not v[3]:
                bad.append({'key': f'identity|{text}', 'kind': 'spec', 'grammar': IDENTITY, 'input': text,
                            'what': f'repeated references at one position returned different objects on {text!r}'})
            log = list(module.LOG)
            if len(log) != len(set(log)):
                bad.append({'key': f'identity-count|{text}', 'kind': 'spec', 'grammar': IDENTITY, 'input': text,
                            'what': f'a rule body ran twice at one position on {text!r}: {log}'})
    for gtext in (TEMPLATE_ARGS, 'grammar c07targs\n' + TEMPLATE_ARGS, EMPTY_ARGS, 'grammar c07eargs\n' + EMPTY_ARGS):
        module, _ = realrun.compile_grammar(gtext)
        for text in ['abcc?', 'abcc!', 'ab', 'cc', '', 'abc', 'ac', 'ae', 'a?', 'a!', 'a']:
            del module.LOG[:]
            try:
                module.parse(text)
            except (module.ParseError, module.PartialParseError):
                pass
            evals += 1
            log = list(module.LOG)
            if len(log) != len(set(log)):
                bad.append({'key': f'template-args|{text}', 'kind': 'spec', 'grammar': gtext, 'input': text,
                            'what': f'a template body ran twice at one position for equal arguments on {text!r}: {log}'})
    return evals, nontrivial, samples, bad


def part3(tier, rng):
    """random core grammars whose rules log their evaluation: count per (rule, pos) <= 1"""
    import gengram as G
    bad = []
    evals = 0
    nontrivial = 0
    n = 250 if tier == 'quick' else 2500
    an = G.Analysis(G.HELPERS)
    inputs = G.all_inputs('ab', 4)
    for i in range(n):
        # A, B, C in the generated expressions refer to the *helper* rules of gengram; here they are
        # redefined as logging wrappers around H_A.. (the helpers) so every reference logs
        start = G.random_expr(rng, 3)
        if not an.wellformed(start) or an.has_bt(start):
            continue
        stext = G.render(start)
        variant = []
        if rng.random() < 0.4:
            # rules handed to templates: a rule passed as an argument must hit the memo entry of a direct reference
            import re as _re
            wrapped = _re.sub(r'\b([ABC])\b', lambda m: rng.choice([f'Wrap({m.group(1)})', f'Twice({m.group(1)})']), stext)
            # the expression is read twice from the same position: first with direct references (as an optional
            # lookahead), then with every rule handed to a template - both must use the same memo entries
            stext = f'[Opt(Expect({stext})), {wrapped}]'
            variant.append('templates')
        with_ign = rng.random() < 0.3
        if with_ign:
            # exactly one named ignored rule that logs, also referred to explicitly
            stext = f'[{stext}, Sp?, /.*/]'
            variant.append('ignore')
        lines = [PRELUDE + f'start = {stext}']
        if rng.random() < 0.4:
            lines.insert(0, f'grammar c07g{i}x{rng.randrange(10 ** 6)}')
            variant.append('named')
        for nme, h in G.HELPERS.items():
            lines.append(f"{nme} = `note('{nme}', _pos)` >> {G.render(h)}")
        if 'templates' in variant:
            lines.append('Wrap(x) = x')
            lines.append('Twice(x) = [Expect(x), x]')
        if with_ign:
            lines.append("ignored Sp = `note('Sp', _pos)` >> / +/")
        gtext = '\n'.join(lines) + '\n'
        try:
            module, _ = realrun.compile_grammar(gtext)
        except Exception as exc:      # noqa: BLE001
            continue
        for text in (inputs + [' a b', 'a b', 'ab ', 'a  b', ' ab', 'a b a'] if with_ign else inputs):
            del module.LOG[:]
            try:
                with time_limit(5):
                    module.parse(text)
            except Timeout:
                continue
            except Exception:         # noqa: BLE001
                pass
            log = list(module.LOG)
            evals += 1
            if len(log) > 1:
                nontrivial += 1
            if len(log) != len(set(log)):
                bad.append({'key': f'{gtext}|{text}', 'kind': 'spec', 'grammar': gtext, 'input': text,
                            'sig': gtext,
                            'what': f'a rule body ran twice at one position on {text!r}: {log[:8]}'})
                break
    return evals, nontrivial, bad


def run(tier, seed, lean):
    rng = random.Random(seed)
    t0 = time.time()
    drv = Driver()
    module, _ = realrun.compile_grammar('start = "a"')
    e1, nt1, samples1, bad1, hits = part1(tier, rng, drv, module._run)
    drv.close()
    e2, nt2, samples2, bad2 = part2(tier)
    e3, nt3, bad3 = part3(tier, rng)
    allbad = bad1 + bad2 + bad3
    violations = [b for b in allbad if b['kind'] == 'spec']
    broken = [b for b in allbad if b['kind'] == 'model']
    cov = {
        'evaluations': e1 + e2 + e3,
        'distinct_nontrivial': len(nt1) + nt2 + nt3,
        'rule': ('(1) random acyclic systems of rule bodies (finite resumption trees) run through the real _run of a '
                 'generated module with synthetic generator functions, event trace compared with the Lean machine; '
                 'non-trivial = at least one memo hit. (2) grammar families with logging inline Python whose un-memoised '
                 'evaluation is exponential, inputs up to length 400: every (rule, position) logged at most once, total <= '
                 'rules x (len+1), repeated references return the identical object. (3) random core grammars with logging rules.'),
        'samples': samples1[:2] + samples2[:4],
        'traces_validated_against_impl': e1,
        'memo_hits_observed': hits,
        'family_runs': e2,
        'random_logging_grammar_runs': e3,
    }
    return {'coverage': cov, 'violations': violations, 'broken': broken}


def replay(case, lean):
    bad = []
    if 'request' in case:
        # re-run one machine case
        import re
        drv = Driver()
        module, _ = realrun.compile_grammar('start = "a"')
        model = drv.ask(case['request']).split(' | ')[0]
        drv.close()
        return {'coverage': {}, 'violations': [], 'broken': []} if model == case.get('real') else \
            {'coverage': {}, 'violations': [case], 'broken': []}
    module, _ = realrun.compile_grammar(case['grammar'])
    del module.LOG[:]
    try:
        module.parse(case['input'])
    except Exception:         # noqa: BLE001
        pass
    log = list(module.LOG)
    if len(log) != len(set(log)):
        bad.append({**case, 'what': f'a rule body ran twice at one position: {log[:10]}'})
    return {'coverage': {}, 'violations': bad, 'broken': []}
