"""Differential run of the names layer (C05 / C06): the real generator against the Lean models
`xgen` (flat locals: the implementation) and `xpeg` (lexical environments: the specification)."""
import itertools
import random
import re

import common
import corerun
import envgen
import realrun

_drv = None
_uniq = itertools.count()


def _init():
    global _drv
    common.import_real()
    _drv = common.Driver()


def strip_spans(s):
    return re.sub(r' \((?:raw)?span \d+ \d+\)', '', s)


def expected(model_out, n):
    """model result '(S v p)' | 'F' | 'U' -> API outcome"""
    if model_out == 'U':
        return ('U',)
    if model_out == 'F':
        return ('E',)
    m = re.fullmatch(r'\(S (.*) (\d+)\)', model_out)
    v, p = strip_spans(m.group(1)), int(m.group(2))
    if re.search(r'(?<![\w])E(?![\w])', v):
        return ('U',)       # the model's inline Python hit a type error (Python raises): no verdict
    return ('V', v) if p == n else ('P', v, p)


def real_outcome(parse, text):
    r, _ = realrun.run_real_api(parse, text, 0, True, limit=3.0)
    if r[0] == 'V':
        return ('V', strip_spans(r[1]))
    if r[0] == 'P':
        return ('P', strip_spans(r[1]), r[2])
    if r[0] == 'E':
        return ('E',)
    return r


def split_top(s):
    """split 'a b ; c d' items where each item is two S-expressions"""
    out = []
    for item in s.split(' ; '):
        depth, cut = 0, None
        for i, ch in enumerate(item):
            if ch == '(':
                depth += 1
            elif ch == ')':
                depth -= 1
            elif ch == ' ' and depth == 0:
                cut = i
                break
        out.append((item[:cut], item[cut + 1:]) if cut is not None else (item, ''))
    return out


def closure_args(e, out):
    """argument expressions that become helper functions (not inline Python, literals or plain names), pre-order"""
    k = e[0]
    if k in ('seq', 'choice'):
        for x in e[1]:
            closure_args(x, out)
    elif k in ('star', 'opt', 'where', 'apply', 'rep'):
        closure_args(e[1], out)
    elif k == 'let':
        closure_args(e[2], out)
        closure_args(e[3], out)
    elif k == 'applyl':
        closure_args(e[1], out)
        closure_args(e[2], out)
    elif k == 'call':
        for _, a in e[2]:
            if a[0] not in ('py', 'lit', 'pvar', 'ref'):
                out.append(a)
            closure_args(a, out)
    elif k == 'bseq':
        for _, x in e[3]:
            closure_args(x, out)
    return out


def real_closure_freevars(rules):
    from sourcer import expressions as ex
    from sourcer.expressions.base import visit
    out = []

    def pre(node):
        if isinstance(node, ex.Call):
            for arg in node.args:
                expr = arg.expr if isinstance(arg, ex.KeywordArg) else arg
                if not isinstance(expr, (ex.PythonExpression, ex.Str, ex.Ref)):
                    out.append(' '.join(sorted(expr.freevars())))
    visit(rules, pre)
    return out


def freevars_tie(P, rules):
    """free names of every argument expression: real `freevars()` against the model's `captured` (as multisets)"""
    args = []
    for _, b in P['rules']:
        closure_args(b, args)
    for _, _, b in P['templates']:
        closure_args(b, args)
    real = real_closure_freevars(rules)
    if not args and not real:
        return None, 0
    model = _drv.ask('(envfv ' + ' '.join(envgen.wire(a) for a in args) + ')').split(' ; ') if args else []
    if sorted(model) != sorted(real):
        return f'free names of argument expressions: real {sorted(real)} model {sorted(model)}', len(args)
    return None, len(args)


def all_calls(e, out):
    k = e[0]
    if k in ('seq', 'choice'):
        for x in e[1]:
            all_calls(x, out)
    elif k in ('star', 'opt', 'where', 'apply', 'rep'):
        all_calls(e[1], out)
    elif k == 'let':
        all_calls(e[2], out)
        all_calls(e[3], out)
    elif k == 'applyl':
        all_calls(e[1], out)
        all_calls(e[2], out)
    elif k == 'call':
        out.append(e)
        for _, a in e[2]:
            all_calls(a, out)
    elif k == 'bseq':
        for _, x in e[3]:
            all_calls(x, out)
    return out


def subst_tie(P):
    """the textual expansion the harness runs on the real generator (envgen.subst) against the Lean `subst` that
    C06_call_means_its_expansion_closed_arguments is stated with, for every call with closed parser arguments"""
    calls = []
    for _, b in P['rules']:
        all_calls(b, calls)
    for _, _, b in P['templates']:
        all_calls(b, calls)
    n = 0
    for c in calls:
        name, params, body = P['templates'][c[1]]
        if body[0] == 'bseq' or any(a[0] in ('py', 'pvar') or envgen.free_names(a) for _, a in c[2]):
            continue
        try:
            sigma = envgen.bind_args(params, c[2])
        except (KeyError, IndexError):
            continue
        req = (f'(envsubst (T ({" ".join(params)}) {envgen.wire(body)})'
               + ''.join(f' ({kw or "-"} {envgen.wire(a)})' for kw, a in c[2]) + ')')
        lean = _drv.ask(req)
        if lean == 'na':
            continue
        n += 1
        mine = envgen.wire(envgen.subst(body, sigma))
        if lean != mine:
            return f'expansion of {envgen.render(c, P)}: harness {mine[:150]} Lean subst {lean[:150]}', n
    return None, n


def run_program(P, inputs, named_tag=None):
    """-> dict(ws, rows=[(text, real, spec, impl)], error)"""
    if P.get('named'):
        P = dict(P)
        P['named'] = re.sub(r'\W', '_', f'{P["named"]}_{named_tag or next(_uniq)}')
    text = envgen.grammar_text(P)
    try:
        mod, real_rules = realrun.compile_grammar(text)
    except RecursionError:
        return {'error': 'compile RecursionError', 'text': text}
    except Exception as exc:      # noqa: BLE001
        return {'error': f'compile {type(exc).__name__}: {str(exc)[:120]}', 'text': text}
    reply = _drv.ask(envgen.env_request(P, [(0, 0, t) for t in inputs]))
    if reply.startswith('error'):
        return {'error': 'driver ' + reply, 'text': text}
    head, rest = reply.split(' ; ', 1)
    rows = []
    for t, (spec, impl) in zip(inputs, split_top(rest)):
        rows.append((t, real_outcome(mod.parse, t), expected(spec, len(t)), expected(impl, len(t))))
    # with shadowing the real symbol counter and the lexical notion of free names part ways
    # (`let x = \`x\` in …` counts x as bound in its own binding expression): that is the known finding, not the tie
    fv_note, n_args = freevars_tie(P, real_rules) if head == 'ws=1' else (None, 0)
    sub_note, n_sub = subst_tie(P)
    return {'ws': head == 'ws=1', 'rows': rows, 'text': text, 'fv_note': fv_note, 'n_closure_args': n_args,
            'sub_note': sub_note, 'n_subst': n_sub}


def _job(job):
    rng = random.Random(job['seed'])
    P = job['program']
    inputs = job['inputs']
    out = {'job': job['id'], 'evals': 0, 'viol': [], 'broken': [], 'stuck': 0, 'ws': None, 'kinds': {},
           'outcomes': {}}
    res = run_program(P, inputs, named_tag=f'{job["id"]}_{job["seed"]}')
    if 'error' in res:
        out['broken'].append({'key': f'{job["id"]}|compile', 'what': res['error'], 'grammar': res['text']})
        return out
    out['ws'] = res['ws']
    out['kinds']['closure_args'] = res['n_closure_args']
    if res['fv_note']:
        out['broken'].append({'key': f'{job["id"]}|freevars', 'grammar': res['text'], 'what': res['fv_note']})
    out['kinds']['subst_ties'] = res['n_subst']
    if res['sub_note']:
        out['broken'].append({'key': f'{job["id"]}|subst', 'grammar': res['text'], 'what': res['sub_note']})
    for t, real, spec, impl in res['rows']:
        out['evals'] += 1
        out['outcomes'][real[0]] = out['outcomes'].get(real[0], 0) + 1
        if impl[0] == 'U' and spec[0] == 'U':
            out['stuck'] += 1
            continue
        if (impl[0] != 'U' and real != impl and not job.get('memo_sensitive') and not (real[0] == 'X' and not res['ws'])
                and not (not res['ws'] and has_function_values(P))):     # shadowing + lambdas: late binding, not the tie
            out['broken'].append({'key': f'{job["id"]}|{t}', 'grammar': res['text'], 'input': t,
                                  'what': f'flat-locals model and implementation differ on {t!r}: real {real} model {impl}'})
        if spec[0] != 'U' and real != spec:
            klass = 'shadowing' if not res['ws'] else 'none'
            out['viol'].append({'key': f'{job["id"]}|{t}', 'sig': f'{job["family"]}|{klass}|{real[0]}{spec[0]}', 'kind': 'spec',
                                'grammar': res['text'], 'input': t, 'finding_class': klass, 'program': repr(P),
                                'what': f'{job["family"]}: on {t!r} the parser gives {str(real)[:120]} where lexical scoping gives {str(spec)[:120]}'
                                        + (' (a binder shadows a name in scope)' if klass == 'shadowing' else '')})
    # C06: the program against its own expansion, on the real generator
    if job.get('expand'):
        Q = expand_program(P)
        if Q is not None:
            res2 = run_program(Q, inputs, named_tag=f'{job["id"]}_{job["seed"]}_x')
            if 'error' in res2:
                out['viol'].append({'key': f'{job["id"]}|expansion-compile', 'sig': f'{job["family"]}|expansion-compile', 'kind': 'spec',
                                    'grammar': res['text'], 'expanded': res2['text'], 'finding_class': 'none',
                                    'what': f'{job["family"]}: the expansion of the templates does not compile: {res2["error"]}'})
            elif res['ws'] and not res2['ws']:
                pass        # the expansion would need renaming (it shadows a name): not expressible, no verdict
            else:
                out['kinds']['expanded'] = 1
                for (t, real, spec, impl), (_, real2, spec2, _) in zip(res['rows'], res2['rows']):
                    out['evals'] += 1
                    if real != real2 and real[0] != 'X' or (real[0] == 'X' and real2[0] != 'X'):
                        klass = 'shadowing' if not (res['ws'] and res2['ws']) else 'none'
                        out['viol'].append({'key': f'{job["id"]}|x|{t}', 'sig': f'{job["family"]}|expansion|{klass}', 'kind': 'spec',
                                            'grammar': res['text'], 'expanded': res2['text'], 'input': t, 'finding_class': klass,
                                            'what': f'{job["family"]}: on {t!r} the call gives {str(real)[:100]} but its expansion gives {str(real2)[:100]}'})
                    if spec[0] != 'U' and spec2[0] != 'U' and spec != spec2:
                        out['broken'].append({'key': f'{job["id"]}|xs|{t}', 'grammar': res['text'], 'input': t,
                                              'what': f'specification: call {spec} and expansion {spec2} differ on {t!r}'})
    return out


def lambda_binders(e, out):
    """binders of the function operands of `<|` (a Python lambda captures the variable: their names must stay unique)"""
    k = e[0]
    if k in ('seq', 'choice'):
        for x in e[1]:
            lambda_binders(x, out)
    elif k in ('star', 'opt', 'where', 'apply', 'rep'):
        lambda_binders(e[1], out)
    elif k == 'let':
        if e[1].startswith('fn') and e[1].endswith('k'):
            out.append(e[1])
        lambda_binders(e[2], out)
        lambda_binders(e[3], out)
    elif k == 'applyl':
        lambda_binders(e[1], out)
        lambda_binders(e[2], out)
    elif k == 'call':
        for _, a in e[2]:
            lambda_binders(a, out)
    elif k == 'bseq':
        for _, x in e[3]:
            lambda_binders(x, out)
    return out


def has_function_values(P):
    return 'applyl' in repr(P)


def expand_program(P):
    rules = []
    changed = False
    for name, body in P['rules']:
        b = envgen.expand(body, P)
        if b is None:
            return None
        changed = changed or b != body
        rules.append((name, b))
    if not changed:
        return None
    for _, b in rules:
        names = lambda_binders(b, [])
        if len(names) != len(set(names)):
            return None     # inlining a template twice duplicated the binder of a lambda: see DESIGN.md (late binding)
    # class templates stay (they cannot be inlined); the others are not referenced any more
    temps = []
    for name, params, body in P['templates']:
        if body[0] == 'bseq':
            b = envgen.expand(body, P)
            if b is None:
                return None
            temps.append((name, params, b))
        else:
            temps.append((name, params, body))
    return {'rules': rules, 'templates': temps, 'named': P.get('named'), 'ignore': P.get('ignore')}


def run_jobs(jobs):
    if len(jobs) < 8:
        _init()
        return [_job(j) for j in jobs]
    return corerun.pool_map(_job, jobs, _init, (), chunksize=8)
