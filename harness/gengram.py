"""Grammar/expression generators for the core properties (C01, C03, C04, C10): expression trees as
tuples, rendering to DSL text, a conservative well-formedness filter, enumerations."""
import itertools
import re

# constructors ---------------------------------------------------------------------------------
def S(s): return ('str', s)
def CI(s): return ('ci', s)
def RX(p): return ('rx', p)


def _rx_min_width(pattern):
    try:
        import re._parser as sre_parse
    except ImportError:       # Python < 3.11
        import sre_parse
    return int(sre_parse.parse(pattern).getwidth()[0])
def BYTE(n): return ('byte', n)
def REF(n): return ('ref', n)
def SEQ(*xs): return ('seq', tuple(xs))
def RIGHT(a, b): return ('dis', True, a, b)
def LEFT(a, b): return ('dis', False, a, b)
def ALT(*xs): return ('alt', tuple(xs))
def OPT(e): return ('opt', e)
def REP(mn, mx, e): return ('rep', mn, mx, e)
def SEP(e, s, discard=True, trailer=False, empty=True, require=False): return ('sep', (discard, trailer, empty, require), e, s)
def EXP(e): return ('exp', e)
def NOT(e): return ('not', e)
def SKIP(*xs): return ('skip', tuple(xs))
def LONG(*xs): return ('long', tuple(xs))
def BT(n): return ('bt', n)
FAIL = ('fail',)
def PY(src): return ('py', src)


def _lit(s, bytes_mode):
    body = ''.join(c if c not in '"\\' and 32 <= ord(c) < 127 else f'\\x{ord(c):02x}' for c in s)
    return ('b' if bytes_mode else '') + '"' + body + '"'


def render(e, bm=False, style=0):
    """DSL text of an expression, fully parenthesised.  style selects alternative spellings."""
    k = e[0]
    r = lambda x: render(x, bm, style)
    if k == 'str':
        return _lit(e[1], bm)
    if k == 'ci':
        return _lit(e[1], bm) + 'i'
    if k == 'rx':
        return ('b' if bm else '') + '/' + e[1] + '/'
    if k == 'byte':
        return f'0x{e[1]:02x}'
    if k == 'ref':
        return e[1]
    if k == 'seq':
        return '[' + ', '.join(r(x) for x in e[1]) + ']'
    if k == 'dis':
        return f'({r(e[2])} {">>" if e[1] else "<<"} {r(e[3])})'
    if k == 'alt':
        return '(' + ' | '.join(r(x) for x in e[1]) + ')'
    if k == 'opt':
        return f'({r(e[1])})?'
    if k == 'rep':
        mn, mx, x = e[1], e[2], e[3]
        if mx is None and mn == 0:
            return f'({r(x)})*'
        if mx is None and mn == 1:
            return f'({r(x)})+'
        if mx is None:
            return f'({r(x)}){{{mn},}}'
        if mn == mx:
            return f'({r(x)}){{{mn}}}'
        if mn == 0:
            return f'({r(x)}){{,{mx}}}'
        return f'({r(x)}){{{mn},{mx}}}'
    if k == 'sep':
        d, t, em, rq = e[1]
        if d and em and not rq:
            return f'({r(e[2])} {"/?" if t else "//"} {r(e[3])})'
        kw = []
        if not d:
            kw.append('discard_separators=False')
        kw.append(f'allow_trailer={t}')
        if not em:
            kw.append('allow_empty=False')
        if rq:
            kw.append('require_separator=True')
        return f'Sep({r(e[2])}, {r(e[3])}, {", ".join(kw)})'
    if k == 'exp':
        return f'Expect({r(e[1])})'
    if k == 'not':
        return f'ExpectNot({r(e[1])})'
    if k == 'skip':
        return 'Skip(' + ', '.join(r(x) for x in e[1]) + ')'
    if k == 'long':
        return 'Longest(' + ', '.join(r(x) for x in e[1]) + ')'
    if k == 'bt':
        return f'Backtrack({e[1]})'
    if k == 'fail':
        return 'Fail()'
    if k == 'py':
        return '`' + e[1] + '`'
    raise ValueError(k)


def children(e):
    k = e[0]
    if k in ('seq', 'alt', 'skip', 'long'):
        return list(e[1])
    if k == 'dis':
        return [e[2], e[3]]
    if k in ('opt', 'exp', 'not'):
        return [e[1]]
    if k == 'rep':
        return [e[3]]
    if k == 'sep':
        return [e[2], e[3]]
    return []


def refs(e):
    out = set()
    if e[0] == 'ref':
        out.add(e[1])
    for c in children(e):
        out |= refs(c)
    return out


def depth(e):
    cs = children(e)
    return 1 + max((depth(c) for c in cs), default=0)


def kinds(e):
    out = {e[0]}
    for c in children(e):
        out |= kinds(c)
    return out


class Analysis:
    """conservative nullable / contains-Backtrack analysis over a rule set"""

    def __init__(self, rules):
        self.rules = rules
        self._null = {n: True for n in rules}     # greatest fixpoint, start pessimistic
        changed = True
        while changed:
            changed = False
            for n, body in rules.items():
                v = self.nullable(body)
                if v != self._null[n]:
                    self._null[n] = v
                    changed = True
        self._bt = {n: False for n in rules}
        changed = True
        while changed:
            changed = False
            for n, body in rules.items():
                v = self.has_bt(body)
                if v != self._bt[n]:
                    self._bt[n] = v
                    changed = True

    def nullable(self, e):
        k = e[0]
        if k == 'str' or k == 'ci':
            return e[1] == ''
        if k == 'rx':
            # (a lookahead or an anchor can match without consuming although the pattern rejects the empty text)
            return re.fullmatch(e[1], '') is not None or _rx_min_width(e[1]) == 0
        if k == 'byte' or k == 'fail':
            return False
        if k == 'ref':
            return self._null.get(e[1], True)
        if k == 'seq':
            return all(self.nullable(x) for x in e[1])
        if k == 'dis':
            return self.nullable(e[2]) and self.nullable(e[3])
        if k in ('alt', 'long'):
            return any(self.nullable(x) for x in e[1])
        if k in ('opt', 'exp', 'not', 'skip', 'bt', 'py'):
            return True
        if k == 'rep':
            return e[1] == 0 or self.nullable(e[3])
        if k == 'sep':
            return e[1][2] or self.nullable(e[2])
        raise ValueError(k)

    def has_bt(self, e):
        if e[0] == 'bt':
            return True
        if e[0] == 'ref':
            return self._bt.get(e[1], True)
        return any(self.has_bt(c) for c in children(e))

    def wellformed(self, e):
        k = e[0]
        if k == 'rep':
            if e[2] is None and (self.nullable(e[3]) or self.has_bt(e[3])):
                return False
            if e[2] is not None and e[2] < e[1]:
                return False
        if k == 'sep':
            if self.nullable(e[2]) and self.nullable(e[3]):
                return False
            if self.has_bt(e[2]) or self.has_bt(e[3]):
                return False
            d, t, em, rq = e[1]
            if rq and not t:
                return False
        if k == 'skip':
            if any(self.nullable(x) or self.has_bt(x) for x in e[1]):
                return False
        if k == 'ref' and e[1] not in self.rules:
            return False
        # constructor spellings read a bare inline-Python operand as an option value (documented)
        ctor_form = k in ('exp', 'not', 'skip', 'long') or (k == 'sep' and not (e[1][0] and e[1][2] and not e[1][3]))
        if ctor_form and any(c[0] == 'py' for c in children(e)):
            return False
        return all(self.wellformed(c) for c in children(e))


# helper rules every generated grammar may refer to -------------------------------------------
HELPERS = {
    'A': RIGHT(S('a'), S('b')),          # fails after consuming on "aa"
    'B': OPT(S('b')),                    # never fails
    'C': ALT(S('a'), S('b')),
}

LEAVES = [S('a'), S('ab'), S(''), RX('a+'), RX('a*'), RX('[ab]'), CI('a'), RX('a'), SEQ(),
          REF('A'), REF('B'), FAIL, PY('None'), BT(1)]

UNARY = [
    lambda e: OPT(e), lambda e: REP(0, None, e), lambda e: REP(1, None, e), lambda e: REP(2, 2, e),
    lambda e: REP(1, 2, e), lambda e: REP(0, 1, e), lambda e: REP(2, None, e), lambda e: REP(0, 0, e),
    lambda e: EXP(e), lambda e: NOT(e), lambda e: SKIP(e), lambda e: LONG(e),
]

BINARY = [
    lambda a, b: SEQ(a, b), lambda a, b: RIGHT(a, b), lambda a, b: LEFT(a, b), lambda a, b: ALT(a, b),
    lambda a, b: LONG(a, b), lambda a, b: SKIP(a, b), lambda a, b: SEP(a, b),
    lambda a, b: SEP(a, b, trailer=True), lambda a, b: SEP(a, b, discard=False),
    lambda a, b: SEP(a, b, empty=False), lambda a, b: SEP(a, b, trailer=True, require=True),
    lambda a, b: SEP(a, b, discard=False, trailer=True, empty=False),
]

CONTEXTS = [
    ('id', lambda e: e),
    ('seq-cont', lambda e: SEQ(e, S('b'))),
    ('alt-first', lambda e: ALT(e, S('ab'), S('b'))),
    ('alt-mid', lambda e: ALT(S('b'), e, RX('[ab]+'))),
    ('opt-cont', lambda e: SEQ(OPT(e), RX('[ab]*'))),
    ('star', lambda e: SEQ(REP(0, None, e), RX('[ab]*'))),
    ('expect', lambda e: SEQ(EXP(e), RX('[ab]*'))),
    ('expectnot', lambda e: SEQ(NOT(e), RX('[ab]*'))),
    ('skip', lambda e: RIGHT(SKIP(e), RX('[ab]*'))),
    ('longest', lambda e: LONG(e, S('a'), S('ab'))),
    ('sep', lambda e: LEFT(SEP(e, S('b')), RX('[ab]*'))),
]


def depth1_exprs():
    out = list(LEAVES)
    for u in UNARY:
        for l in LEAVES:
            out.append(u(l))
    for b in BINARY:
        for l1 in LEAVES:
            for l2 in LEAVES:
                out.append(b(l1, l2))
    return out


def random_expr(rng, depth_, leaves=LEAVES):
    if depth_ <= 0 or rng.random() < 0.15:
        return rng.choice(leaves)
    c = rng.random()
    if c < 0.4:
        return rng.choice(UNARY)(random_expr(rng, depth_ - 1, leaves))
    if c < 0.9:
        return rng.choice(BINARY)(random_expr(rng, depth_ - 1, leaves), random_expr(rng, depth_ - 1, leaves))
    n = rng.randint(3, 4)
    xs = [random_expr(rng, depth_ - 1, leaves) for _ in range(n)]
    return rng.choice([lambda *a: SEQ(*a), lambda *a: ALT(*a), lambda *a: LONG(*a), lambda *a: SKIP(*a)])(*xs)


def grammar_text(start, bm=False, helpers=HELPERS, extra_rules=None, ignores=()):
    """one rule per line; only the helper rules that are (transitively) referenced"""
    rules = dict(extra_rules or {})
    need = set(refs(start))
    for b in rules.values():
        need |= refs(b)
    todo = list(need)
    while todo:
        n = todo.pop()
        if n in helpers and n not in rules:
            rules[n] = helpers[n]
            for m in refs(helpers[n]):
                if m not in rules:
                    todo.append(m)
    lines = [f'start = {render(start, bm)}']
    for n, b in rules.items():
        lines.append(f'{n} = {render(b, bm)}')
    for ig in ignores:
        lines.append(ig)
    return '\n'.join(lines) + '\n', rules


def all_inputs(alphabet, max_len, bm=False):
    out = []
    for n in range(max_len + 1):
        for t in itertools.product(alphabet, repeat=n):
            s = ''.join(t)
            out.append(s.encode('latin-1') if bm else s)
    return out


# ---------------------------------------------------------------------------------------------
# alternative spellings and layouts (C19)

def render_alt(e, rng, bm=False, choice_ctor_ok=True):
    """the same expression in a random mix of the documented alternative spellings"""
    k = e[0]
    r = lambda x: render_alt(x, rng, bm, choice_ctor_ok)
    kids = children(e)
    has_py_child = any(c[0] == 'py' for c in kids)
    ctor = rng.random() < 0.5 and not has_py_child
    nl = (lambda: rng.choice(['', '', '\n    ']))
    def paren(s):
        return f'({s})' if rng.random() < 0.2 else s
    if k in ('str', 'ci', 'rx', 'byte', 'ref', 'bt', 'fail', 'py', 'exp', 'not', 'skip', 'long'):
        if k in ('exp', 'not', 'skip', 'long'):
            name = {'exp': 'Expect', 'not': 'ExpectNot', 'skip': 'Skip', 'long': 'Longest'}[k]
            return paren(f'{name}(' + ', '.join(r(x) for x in kids) + ')')
        return paren(render(e, bm))
    if k == 'seq':
        if ctor and e[1]:
            return paren('Seq(' + ', '.join(r(x) for x in e[1]) + ')')
        return paren('[' + (',' + nl() + ' ').join(r(x) for x in e[1]) + ']')
    if k == 'dis':
        if ctor:
            return paren(f'{"Right" if e[1] else "Left"}({r(e[2])}, {r(e[3])})')
        return f'({r(e[2])}{nl()} {">>" if e[1] else "<<"}{nl()} {r(e[3])})'
    if k == 'alt':
        nested = any(c[0] == 'alt' for c in e[1])
        if ctor and choice_ctor_ok and not nested:
            return paren('Choice(' + ', '.join(r(x) for x in e[1]) + ')')
        return '(' + (nl() + ' |' + nl() + ' ').join(r(x) for x in e[1]) + ')'
    if k == 'opt':
        return paren(f'Opt({r(e[1])})') if ctor else f'({r(e[1])})?'
    if k == 'rep':
        mn, mx, x = e[1], e[2], e[3]
        if ctor:
            if mx is None and mn == 0:
                return paren(f'List({r(x)})')
            if mx is None and mn == 1:
                return paren(rng.choice([f'Some({r(x)})', f'List({r(x)}, min_len=1)']))
            kws = [f'min_len={mn}'] + ([f'max_len={mx}'] if mx is not None else [])
            return paren(f'List({r(x)}, {", ".join(kws)})')
        return render(('rep', mn, mx, ('rx', 'HOLE')), bm).replace(('b' if bm else '') + '/HOLE/', r(x))
    if k == 'sep':
        d, t, em, rq = e[1]
        if d and em and not rq and not ctor:
            return f'({r(e[2])}{nl()} {"/?" if t else "//"}{nl()} {r(e[3])})'
        kw = []
        if not d:
            kw.append('discard_separators=False')
        if t or rng.random() < 0.3:
            kw.append(f'allow_trailer={t}')
        if not em:
            kw.append('allow_empty=False')
        if rq:
            kw.append('require_separator=True')
        rng.shuffle(kw)
        return paren(f'Sep({r(e[2])}, {r(e[3])}' + ''.join(', ' + x for x in kw) + ')')
    raise ValueError(k)


def grammar_text_alt(start, rng, rules, bm=False, ignores=(), choice_ctor_ok=True):
    """statement-level layout variants: `=`/`:`/`=>`, newline vs `;`, comments, blank lines"""
    stmts = []
    defs = [('start', start)] + list(rules.items())
    # (a description that consists of inline Python only is a Python section, not an expression)
    bare = not rules and not ignores and rng.random() < 0.3 and start[0] != 'py'
    for name, body in defs:
        text = render_alt(body, rng, bm, choice_ctor_ok)
        if bare and name == 'start':
            stmts.append(text)
        else:
            tok = rng.choice(['=', ':', '=>'])
            sp = rng.choice([' ', '  ', ''])
            stmts.append(f'{name}{sp}{tok}{sp}{text}')
    for ig in ignores:
        stmts.append(ig.replace('ignore ', rng.choice(['ignore ', 'ignored ']), 1))
    out = []
    if rng.random() < 0.3:
        out.append('# leading comment\n\n')
    for i, s in enumerate(stmts):
        out.append(s)
        if i + 1 < len(stmts):
            sep = rng.choice(['\n', '\n', ';', ' ; ', '\n\n', ' # trailing comment\n', '\n# own line\n', ';\n',
                              '\r', '\r\n', ' # trailing comment\r', ' # trailing comment\r\n', '\r# own line\r'])
            out.append(sep)
    out.append(rng.choice(['\n', '', '\n\n', ' # end\n', ';\n']) if not bare else rng.choice(['', '\n']))
    return ''.join(out)
