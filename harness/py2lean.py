"""Translator T2: the pure runtime arithmetic of /repo's `_main_template` -> Lean (Gen/Excerpt.lean).

The functions `_extract_excerpt`, `_caret_at`, `_get_line_and_column` and
`_map_index_to_line_and_column` are taken from the working tree's sourcer/translator.py, parsed
with `ast`, and translated statement by statement for a small fragment of Python (ints, strings,
slices, if/elif/else with returns, one accumulating `for c in text` loop).  Anything outside the
fragment raises Untranslatable, which the checks treat like a broken proof obligation.
"""
import ast
import os
import re
import string

from common import LEAN, REPO


class Untranslatable(Exception):
    pass


FUNCS = ['_caret_at', '_map_index_to_line_and_column', '_get_line_and_column', '_extract_excerpt']

# result and parameter types of the translated functions
SIGS = {
    '_caret_at': (['int'], 'str'),
    '_map_index_to_line_and_column': (['str'], 'pair_list'),
    '_get_line_and_column': (['str', 'int'], 'opt_pair_int'),
    '_extract_excerpt': (['str', 'int', 'int'], 'str'),
}


def load_functions():
    path = os.path.join(REPO, 'sourcer', 'translator.py')
    with open(path) as f:
        src = f.read()
    mod = ast.parse(src)
    template = None
    for node in mod.body:
        if isinstance(node, ast.Assign) and any(isinstance(t, ast.Name) and t.id == '_main_template' for t in node.targets):
            template = ast.literal_eval(node.value)
    if template is None:
        raise Untranslatable('_main_template not found')
    body = string.Template(template).safe_substitute(CALL='3', ctx='', start='start')
    tree = ast.parse(body)
    out = {}
    for node in tree.body:
        if isinstance(node, ast.FunctionDef) and node.name in FUNCS:
            out[node.name] = node
    missing = [f for f in FUNCS if f not in out]
    if missing:
        raise Untranslatable('functions not found: ' + ', '.join(missing))
    return out


def lname(n):
    n = n.lstrip('_')
    return {'end': 'end_', 'match': 'm', 'start': 'start'}.get(n, n)


class Fn:
    def __init__(self, node):
        self.node = node
        self.types = {}

    # ---- expressions -------------------------------------------------------------------------
    def typeof(self, e):
        if isinstance(e, ast.Constant):
            if isinstance(e.value, bool):
                return 'bool'
            if isinstance(e.value, int):
                return 'int'
            if isinstance(e.value, str):
                return 'str'
            if e.value is None:
                return 'none'
        if isinstance(e, ast.Name):
            if e.id in self.types:
                return self.types[e.id]
            raise Untranslatable(f'unknown name {e.id}')
        if isinstance(e, ast.BinOp):
            lt, rt = self.typeof(e.left), self.typeof(e.right)
            if isinstance(e.op, ast.Mult) and 'str' in (lt, rt):
                return 'str'
            if lt == rt:
                return lt
            raise Untranslatable(f'mixed operand types {lt} {rt}')
        if isinstance(e, ast.Subscript):
            if isinstance(e.slice, ast.Slice):
                return 'str'
            return 'opt_int'
        if isinstance(e, ast.Call):
            f = e.func
            if isinstance(f, ast.Name) and f.id == 'len':
                return 'int'
            if isinstance(f, ast.Name) and f.id == '_caret_at':
                return 'str'
            if isinstance(f, ast.Name) and f.id == '_map_index_to_line_and_column':
                return 'pair_list'
            if isinstance(f, ast.Attribute) and f.attr == 'search':
                return 'match'
            if isinstance(f, ast.Attribute) and f.attr == 'start' and self.typeof(f.value) == 'match':
                return 'int'
            if isinstance(f, ast.Name) and f.id == 'max':
                return 'int'
        if isinstance(e, ast.IfExp):
            return self.typeof(e.body)
        if isinstance(e, ast.UnaryOp) and isinstance(e.op, ast.USub):
            return 'int'
        raise Untranslatable('expression ' + ast.dump(e)[:80])

    def expr(self, e):
        if isinstance(e, ast.Constant):
            if isinstance(e.value, bool):
                return 'true' if e.value else 'false'
            if isinstance(e.value, int):
                return f'({e.value} : Int)'
            if isinstance(e.value, str):
                return '([' + ', '.join(str(ord(c)) for c in e.value) + '] : Str)'
        if isinstance(e, ast.Name):
            self.typeof(e)
            return lname(e.id)
        if isinstance(e, ast.UnaryOp) and isinstance(e.op, ast.USub):
            return f'(- {self.expr(e.operand)})'
        if isinstance(e, ast.BinOp):
            lt, rt = self.typeof(e.left), self.typeof(e.right)
            l, r = self.expr(e.left), self.expr(e.right)
            if isinstance(e.op, ast.Add):
                if lt == 'str' and rt == 'str':
                    return f'({l} ++ {r})'
                if lt == 'int' and rt == 'int':
                    return f'({l} + {r})'
            if isinstance(e.op, ast.Sub) and lt == rt == 'int':
                return f'({l} - {r})'
            if isinstance(e.op, ast.Mult):
                if lt == 'str' and rt == 'int':
                    return f'(strMul {l} {r})'
                if lt == 'int' and rt == 'str':
                    return f'(strMul {r} {l})'
                if lt == rt == 'int':
                    return f'({l} * {r})'
            raise Untranslatable('operator ' + ast.dump(e.op))
        if isinstance(e, ast.Subscript):
            if self.typeof(e.value) == 'str' and isinstance(e.slice, ast.Slice):
                if e.slice.step is not None:
                    raise Untranslatable('slice step')
                lo = self.expr(e.slice.lower) if e.slice.lower is not None else '(0 : Int)'
                hi = self.expr(e.slice.upper) if e.slice.upper is not None else f'(len {self.expr(e.value)})'
                return f'(slice {self.expr(e.value)} {lo} {hi})'
            if self.typeof(e.value) == 'list_int':
                return f'(index {self.expr(e.value)} {self.expr(e.slice)})'
            raise Untranslatable('subscript')
        if isinstance(e, ast.Call):
            f = e.func
            if isinstance(f, ast.Name) and f.id == 'len' and len(e.args) == 1:
                return f'(len {self.expr(e.args[0])})'
            if isinstance(f, ast.Name) and f.id == '_caret_at' and len(e.args) == 1:
                return f'(caret_at {self.expr(e.args[0])})'
            if isinstance(f, ast.Name) and f.id == 'max' and len(e.args) == 2:
                return f'(max {self.expr(e.args[0])} {self.expr(e.args[1])})'
            if isinstance(f, ast.Name) and f.id == '_map_index_to_line_and_column' and len(e.args) == 1:
                return f'(map_index_to_line_and_column {self.expr(e.args[0])})'
            if (isinstance(f, ast.Attribute) and f.attr == 'search' and isinstance(f.value, ast.Call)
                    and isinstance(f.value.func, ast.Name) and f.value.func.id == '_compile_re'
                    and len(f.value.args) == 1 and isinstance(f.value.args[0], ast.Constant)
                    and f.value.args[0].value == '\n' and len(e.args) == 2):
                return f'(searchNl {self.expr(e.args[0])} {self.expr(e.args[1])})'
            raise Untranslatable('call ' + ast.dump(f)[:60])
        if isinstance(e, ast.IfExp):
            t = e.test
            # `len(text) if match is None else match.start()`
            if (isinstance(t, ast.Compare) and len(t.ops) == 1 and isinstance(t.ops[0], ast.Is)
                    and isinstance(t.comparators[0], ast.Constant) and t.comparators[0].value is None
                    and isinstance(t.left, ast.Name) and self.typeof(t.left) == 'match'):
                m = t.left.id
                orelse = e.orelse
                if (isinstance(orelse, ast.Call) and isinstance(orelse.func, ast.Attribute)
                        and orelse.func.attr == 'start' and isinstance(orelse.func.value, ast.Name)
                        and orelse.func.value.id == m and not orelse.args):
                    return f'(match {lname(m)} with | none => {self.expr(e.body)} | some i => i)'
            return f'(if {self.cond(e.test)} then {self.expr(e.body)} else {self.expr(e.orelse)})'
        raise Untranslatable('expression ' + ast.dump(e)[:80])

    def cond(self, e):
        if isinstance(e, ast.Compare) and len(e.ops) == 1:
            l, r = self.expr(e.left), self.expr(e.comparators[0])
            lt = self.typeof(e.left)
            op = e.ops[0]
            if lt == 'int':
                tbl = {ast.Lt: '<', ast.LtE: '≤', ast.Gt: '>', ast.GtE: '≥', ast.Eq: '=', ast.NotEq: '≠'}
                if type(op) in tbl:
                    return f'{l} {tbl[type(op)]} {r}'
            if lt == 'char' and isinstance(op, ast.Eq) and isinstance(e.comparators[0], ast.Constant) \
                    and isinstance(e.comparators[0].value, str) and len(e.comparators[0].value) == 1:
                return f'{l} = {ord(e.comparators[0].value)}'
        raise Untranslatable('condition ' + ast.dump(e)[:80])

    # ---- statements ----------------------------------------------------------------------------
    def block(self, stmts, ind):
        """translate a statement list that ends in a return on every path"""
        pad = '  ' * ind
        if not stmts:
            raise Untranslatable('path without return')
        s, rest = stmts[0], stmts[1:]
        if isinstance(s, ast.Expr) and isinstance(s.value, ast.Constant) and isinstance(s.value.value, str):
            return self.block(rest, ind)
        if isinstance(s, ast.Return):
            return pad + self.ret(s.value)
        if isinstance(s, ast.Assign) and len(s.targets) == 1:
            t = s.targets[0]
            if isinstance(t, ast.Name):
                self.types[t.id] = self.typeof(s.value)
                return pad + f'let {lname(t.id)} := {self.expr(s.value)}\n' + self.block(rest, ind)
            if isinstance(t, ast.Tuple) and all(isinstance(x, ast.Name) for x in t.elts) \
                    and self.typeof(s.value) == 'pair_list' and len(t.elts) == 2:
                for x in t.elts:
                    self.types[x.id] = 'list_int'
                names = ', '.join(lname(x.id) for x in t.elts)
                return pad + f'let ({names}) := {self.expr(s.value)}\n' + self.block(rest, ind)
        if isinstance(s, ast.If):
            if self.is_bytes_test(s.test):
                # `if isinstance(text, bytes): return repr(...)` - the bytes rendering is not modelled
                return pad + 'if isBytes then bytesExcerpt text pos else\n' + self.block(rest, ind)
            saved = dict(self.types)
            then = self.block(s.body, ind + 1)
            self.types = dict(saved)
            if s.orelse:
                if rest:
                    raise Untranslatable('statements after if/else with returns')
                els = self.block(s.orelse, ind + 1)
            else:
                els = self.block(rest, ind + 1)
            return pad + f'if {self.cond(s.test)} then\n{then}\n{pad}else\n{els}'
        if isinstance(s, ast.For):
            return self.loop(s, rest, ind)
        raise Untranslatable('statement ' + ast.dump(s)[:80])

    def is_bytes_test(self, t):
        return (isinstance(t, ast.Call) and isinstance(t.func, ast.Name) and t.func.id == 'isinstance'
                and len(t.args) == 2 and isinstance(t.args[1], ast.Name) and t.args[1].id == 'bytes')

    def ret(self, e):
        if isinstance(e, ast.Tuple) and len(e.elts) == 2:
            ts = [self.typeof(x) for x in e.elts]
            if ts == ['list_int', 'list_int']:
                return f'({self.expr(e.elts[0])}, {self.expr(e.elts[1])})'
            if ts == ['opt_int', 'opt_int']:
                a, b = self.expr(e.elts[0]), self.expr(e.elts[1])
                return f'(match {a}, {b} with | some l, some c => some (l, c) | _, _ => none)'
        return self.expr(e)

    def assigned(self, stmts):
        out = []
        for s in stmts:
            if isinstance(s, ast.Assign) and len(s.targets) == 1 and isinstance(s.targets[0], ast.Name):
                n = s.targets[0].id
            elif isinstance(s, ast.AugAssign) and isinstance(s.target, ast.Name):
                n = s.target.id
            elif (isinstance(s, ast.Expr) and isinstance(s.value, ast.Call) and isinstance(s.value.func, ast.Attribute)
                  and s.value.func.attr == 'append' and isinstance(s.value.func.value, ast.Name)):
                n = s.value.func.value.id
            elif isinstance(s, ast.If):
                for n2 in self.assigned(s.body) + self.assigned(s.orelse):
                    if n2 not in out:
                        out.append(n2)
                continue
            else:
                raise Untranslatable('loop statement ' + ast.dump(s)[:80])
            if n not in out:
                out.append(n)
        return out

    def straight(self, stmts, ind, result):
        """statements without return (inside a loop body): ends by producing the tuple `result`"""
        pad = '  ' * ind
        if not stmts:
            return pad + result
        s, rest = stmts[0], stmts[1:]
        if isinstance(s, ast.Assign):
            n = s.targets[0].id
            return pad + f'let {lname(n)} := {self.expr(s.value)}\n' + self.straight(rest, ind, result)
        if isinstance(s, ast.AugAssign):
            n = s.target.id
            if self.types.get(n) != 'int' or not isinstance(s.op, (ast.Add, ast.Sub)):
                raise Untranslatable('augmented assignment')
            op = '+' if isinstance(s.op, ast.Add) else '-'
            return pad + f'let {lname(n)} := {lname(n)} {op} {self.expr(s.value)}\n' + self.straight(rest, ind, result)
        if isinstance(s, ast.Expr):
            n = s.value.func.value.id
            if self.types.get(n) != 'list_int' or len(s.value.args) != 1 or self.typeof(s.value.args[0]) != 'int':
                raise Untranslatable('append')
            return pad + f'let {lname(n)} := {lname(n)} ++ [{self.expr(s.value.args[0])}]\n' + self.straight(rest, ind, result)
        if isinstance(s, ast.If):
            vs = self.assigned(s.body) + [v for v in self.assigned(s.orelse) if v not in self.assigned(s.body)]
            tup = '(' + ', '.join(lname(v) for v in vs) + ')' if len(vs) > 1 else lname(vs[0])
            then = self.straight(s.body, ind + 1, tup)
            els = self.straight(s.orelse, ind + 1, tup)
            return (pad + f'let {tup} := if {self.cond(s.test)} then\n{then}\n{pad}else\n{els}\n'
                    + self.straight(rest, ind, result))
        raise Untranslatable('loop statement')

    def loop(self, s, rest, ind):
        pad = '  ' * ind
        if not (isinstance(s.target, ast.Name) and isinstance(s.iter, ast.Name)
                and self.types.get(s.iter.id) == 'str' and not s.orelse):
            raise Untranslatable('loop shape')
        c = s.target.id
        self.types[c] = 'char'
        vs = self.assigned(s.body)
        for v in vs:
            if v not in self.types:
                raise Untranslatable(f'loop variable {v} not initialised')
        tup = '(' + ', '.join(lname(v) for v in vs) + ')'
        body = self.straight(s.body, ind + 2, tup)
        del self.types[c]
        return (pad + f'let {tup} := {lname(s.iter.id)}.foldl (fun {tup} {lname(c)} =>\n{body}) {tup}\n'
                + self.block(rest, ind))

    def translate(self):
        n = self.node
        ptypes, rtype = SIGS[n.name]
        params = [a.arg for a in n.args.args]
        if len(params) != len(ptypes) or n.args.defaults or n.args.vararg or n.args.kwarg:
            raise Untranslatable(f'signature of {n.name}')
        for p, t in zip(params, ptypes):
            self.types[p] = t
        # empty-list initialisers
        body = []
        for s in n.body:
            if (isinstance(s, ast.Assign) and isinstance(s.value, ast.List) and not s.value.elts
                    and isinstance(s.targets[0], ast.Name)):
                self.types[s.targets[0].id] = 'list_int'
                body.append(('init', s.targets[0].id))
            else:
                body.append(s)
        lt = {'int': 'Int', 'str': 'Str'}
        rt = {'str': 'Str', 'pair_list': 'List Int × List Int', 'opt_pair_int': 'Option (Int × Int)'}[rtype]
        sig = ' '.join(f'({lname(p)} : {lt[t]})' for p, t in zip(params, ptypes))
        extra = ' (isBytes : Bool)' if n.name == '_extract_excerpt' else ''
        lines = []
        inits = [b[1] for b in body if isinstance(b, tuple)]
        stmts = [b for b in body if not isinstance(b, tuple)]
        pre = ''.join(f'  let {lname(v)} : List Int := []\n' for v in inits)
        code = self.block(stmts, 1)
        return f'def {lname(n.name)}{extra} {sig} : {rt} :=\n{pre}{code}\n'


def render():
    fns = load_functions()
    parts = []
    for name in FUNCS:
        parts.append(Fn(fns[name]).translate())
    return (
        '-- REGENERATED on every run by harness/py2lean.py from the runtime text in /repo/sourcer/translator.py. Do not edit.\n'
        'import Sourcer.PyPrim\n'
        'namespace Gen.Excerpt\n'
        'open Sourcer.Py\n\n'
        '/-- `repr(text[max(0, pos - 1) : pos + 2])` for bytes input: not modelled -/\n'
        'opaque bytesExcerpt : Str → Int → Str\n\n'
        + '\n'.join(parts) +
        '\nend Gen.Excerpt\n'
    )


def regenerate():
    from extract_flags import write_if_changed
    text = render()
    return write_if_changed(os.path.join(LEAN, 'Gen', 'Excerpt.lean'), text)


if __name__ == '__main__':
    print(render())
