"""Differential run of generated grammars: real sourcer (from /repo) vs the Lean model (gen) and the
Lean specification (peg), sharded over a process pool."""
import multiprocessing as mp
import os
import sys
import traceback

_state = {}


def _init(flag_bits):
    sys.setrecursionlimit(10000)
    from common import Driver
    _state['driver'] = Driver(flag_bits)
    import realrun
    _state['rr'] = realrun


def _job(job):
    rr = _state['rr']
    drv = _state['driver']
    out = {'id': job['id'], 'text': job['text'], 'meta': job.get('meta'), 'mismatches': [], 'bm': bool(job.get('bm')),
           'n_cases': 0, 'undefined': 0, 'outcomes': {}, 'unsupported': None, 'compile': 'ok',
           'failpos_diff': 0, 'failpos_cmp': 0, 'flag_mismatch': None,
           'prep': ({'request': job['prep_request'], 'rx': job['prep_rx'], 'entry': job.get('prep_entry')}
                    if job.get('prep_request') else None)}
    try:
        with rr.time_limit(20):
            module, rules = rr.compile_grammar(job['text'])
    except Exception as exc:          # noqa: BLE001
        out['compile'] = 'X ' + type(exc).__name__ + ': ' + str(exc)[:200]
        return out
    try:
        w = rr.Wire(rules)
        bodies, ign = w.program()
    except rr.Unsupported as exc:
        out['unsupported'] = str(exc)
        return out
    if job.get('prep_request'):
        # correspondence of the Lean model of preparation with the real translator
        reply = drv.ask(job['prep_request'])
        out['prep_checked'] = 1
        m = None if reply.startswith('error') else __import__('re').match(r'\(ign (-?\d+)\) \(start (\d+)\) \(rules(.*)\)$', reply)
        if not m:
            out['unsupported'] = 'driver prepare: ' + reply[:100]
            return out
        model_rules = rr.inline_rx('(rules' + m.group(3) + ')', job['prep_rx'])
        real_rules = rr.inline_rx('(rules ' + ' '.join(bodies) + ')', w.rx) if bodies else '(rules)'
        if int(m.group(1)) != ign or model_rules != real_rules:
            out['mismatches'].append({'kind': 'model', 'entry': 'prepare', 'pos': 0, 'input': '',
                                      'real': ('prepared', f'(ign {ign}) {real_rules}'),
                                      'gen': ('prepared', f'(ign {m.group(1)}) {model_rules}'), 'peg': ('-',)})
            out['n_bad'] = out.get('n_bad', 0) + 1
    if w.bytes_mode is None:
        w.bytes_mode = bool(job.get('bm'))
    dyn = None
    if job.get('dyn'):
        try:
            with rr.time_limit(20):
                dyn_module, _ = rr.compile_grammar(job['dyn']['text'])
            dyn = (dyn_module.parse, job['dyn'].get('prefix', ''))
        except Exception as exc:          # noqa: BLE001
            out['compile'] = 'X (data-dependent variant) ' + type(exc).__name__ + ': ' + str(exc)[:200]
            out['text'] = job['dyn']['text']
            return out
    spans = bool(job.get('spans'))
    fuel = job.get('fuel', 64)
    if job.get('tagcheck'):
        # hypothesis of C02_tree_well_shaped_and_yield: the rows of every real table are tagged (prec, assoc) with
        # assoc = 0 on prefix rows and != 0 on infix rows (decided by the Lean function the theorem is stated with)
        reply = drv.ask('(tagcheck ' + ' '.join(bodies) + ')')
        out['tagcheck'] = reply
    t_start = rr._TIMEOUTS['total']
    for entry in job.get('entries', ['start']):
        cases = job['cases']
        req = rr.core_request(w, bodies, ign, w.index[entry], cases, fuel)
        reply = drv.ask(req)
        if reply.startswith('error'):
            out['unsupported'] = 'driver: ' + reply
            return out
        items = reply.split(' ; ')
        assert len(items) == len(cases), (len(items), len(cases))
        spec_items = None
        if job.get('prep_request') and entry == job.get('prep_entry'):
            # reference = Lean `prepare` of the *unprepared* grammar, then `peg`
            bm = 1 if w.bytes_mode else 0
            cs = ' '.join('(' + str(p_) + ''.join(f' {c}' for c in rr.codes(t_)) + ')' for p_, t_ in cases)
            decls = job['prep_request'][len('(prepare '):-1]
            sreply = drv.ask(f'(prepcore (bytes {bm}) (fuel {fuel}) (rx {" ".join(job["prep_rx"])}) '
                             f'(decls {decls}) (cases {cs}))')
            if not sreply.startswith('error'):
                spec_items = sreply.split(' ; ')
        parse = module.parse if entry == 'start' or job.get('module_parse') else getattr(module, entry).parse
        for ci, ((pos, text), item) in enumerate(zip(cases, items)):
            g, p = rr.parse_reply_item(item)
            if spec_items is not None:
                _, p = rr.parse_reply_item(spec_items[ci])
            if rr._TIMEOUTS['total'] - t_start >= 4:
                # this grammar hangs the implementation again and again: the time-outs already recorded are the verdict,
                # the remaining cases would only make the check take for ever
                break
            real = rr.run_real(parse, text, pos, spans=True)
            out['n_cases'] += 1
            if not spans:
                strip = _strip_spans
            else:
                strip = lambda s: s
            rv = (real[0], strip(real[1]), real[2]) if real[0] == 'S' else real
            gv = (g[0], strip(g[1]), g[2]) if g[0] == 'S' else g
            pv = (p[0], strip(p[1]), p[2]) if p[0] == 'S' else p
            key = real[0] if real[0] != 'X' else 'X:' + real[1]
            out['outcomes'][key] = out['outcomes'].get(key, 0) + 1
            if pv[0] == 'U':
                out['undefined'] += 1
                continue
            bad_spec = not _same(rv, pv, False)
            bad_model = not _same(rv, gv, False)
            if rv[0] == 'F' and gv[0] == 'F':
                out['failpos_cmp'] += 1
                if rv[1] != gv[1]:
                    out['failpos_diff'] += 1
                    if len(out['mismatches']) < 5 and job.get('cmp_failpos'):
                        out['mismatches'].append({'kind': 'failpos', 'entry': entry, 'pos': pos,
                                                  'input': _show(text), 'real': rv, 'gen': gv, 'peg': pv})
            if dyn is not None and pos == 0:
                dparse, prefix = dyn
                dreal = rr.run_real(dparse, prefix + text, 0, spans=True)
                dv = (dreal[0], strip(dreal[1]), dreal[2] - len(prefix)) if dreal[0] == 'S' else dreal
                out['dyn_cases'] = out.get('dyn_cases', 0) + 1
                if not _same(dv, pv, False):
                    if len(out['mismatches']) < 5:
                        out['mismatches'].append({'kind': 'spec', 'entry': entry, 'pos': pos,
                                                  'input': _show(prefix + text), 'real': dv, 'gen': gv,
                                                  'peg': pv, 'variant': job['dyn']['text'],
                                                  'prefix': prefix, 'base_input': _show(text)})
                    out['n_bad'] = out.get('n_bad', 0) + 1
            if job.get('lengthen') and pos == 0 and rv[0] in ('S', 'F'):
                longer = _lengthen(text, job['lengthen'])
                if longer != text:
                    lreal = rr.run_real(parse, longer, 0, spans=True)
                    out['lengthen_cases'] = out.get('lengthen_cases', 0) + 1
                    lv = (lreal[0], strip(lreal[1])) if lreal[0] == 'S' else (lreal[0],)
                    bv = (rv[0], rv[1]) if rv[0] == 'S' else (rv[0],)
                    if lv != bv:
                        if len(out['mismatches']) < 5:
                            out['mismatches'].append({'kind': 'spec', 'entry': entry, 'pos': pos,
                                                      'input': _show(longer), 'real': lreal, 'gen': gv,
                                                      'peg': ('same value as on', _show(text), rv),
                                                      'metamorphic': 'lengthened ignorable runs'})
                        out['n_bad'] = out.get('n_bad', 0) + 1
            if bad_spec or bad_model:
                if len(out['mismatches']) < 5:
                    out['mismatches'].append({'kind': 'spec' if bad_spec else 'model', 'entry': entry,
                                              'pos': pos, 'input': _show(text), 'real': rv, 'gen': gv,
                                              'peg': pv})
                out['n_bad'] = out.get('n_bad', 0) + 1
    return out


def _lengthen(text, chars):
    """double every maximal run of ignorable characters"""
    import re
    if isinstance(text, bytes):
        cls = b'[' + re.escape(chars.encode('latin-1')) + b']+'
        return re.sub(cls, lambda m: m.group(0) * 2, text)
    cls = '[' + re.escape(chars) + ']+'
    return re.sub(cls, lambda m: m.group(0) * 2, text)


def _show(t):
    return t.decode('latin-1') if isinstance(t, bytes) else t


def _strip_spans(s):
    import re
    return re.sub(r' \(span \d+ \d+\)', '', s)


def _same(real, model, failpos):
    if real[0] != model[0]:
        return False
    if real[0] == 'S':
        return real[1] == model[1] and real[2] == model[2]
    if real[0] == 'F':
        return (not failpos) or model[1] is None or real[1] == model[1]
    return False


def pool_map(func, jobs, initializer=None, initargs=(), chunksize=8, procs=None, item_timeout=600):
    """imap_unordered with a watchdog: a worker that dies or hangs must not hang the check (it becomes an
    infrastructure error, exit 2, never a verdict)"""
    procs = procs or min(16, os.cpu_count() or 4)
    ctx = mp.get_context('fork')
    pool = ctx.Pool(procs, initializer=initializer, initargs=initargs)
    out = []
    chunks = [(func, jobs[i:i + chunksize]) for i in range(0, len(jobs), chunksize)]
    try:
        it = pool.imap_unordered(_run_chunk, chunks)
        for _ in range(len(chunks)):
            try:
                out += it.next(timeout=item_timeout)
            except mp.TimeoutError:
                raise RuntimeError(f'worker pool made no progress for {item_timeout} s ({len(out)} of {len(jobs)} jobs done)')
        pool.close()
        pool.join()
    finally:
        pool.terminate()
    return out


def _run_chunk(arg):
    func, chunk = arg
    return [func(j) for j in chunk]


def run_jobs(jobs, flag_bits, procs=None):
    procs = procs or min(16, os.cpu_count() or 4)
    if len(jobs) < 8:
        _init(flag_bits)
        return [_job(j) for j in jobs]
    return pool_map(_job, jobs, _init, (flag_bits,), chunksize=16, procs=procs)


# ---------------------------------------------------------------------------------------------
# API-level differential run (C08 / C10): every entry x input x start offset x fullparse

def _linecol(text, index):
    if isinstance(text, bytes):
        return 1, index + 1          # bytes input is a single line (C09)
    nl = '\n'
    line = 1 + text.count(nl, 0, index)
    col = 1 + index - (text.rfind(nl, 0, index) + 1)
    return line, col


def _job_api(job):
    rr = _state['rr']
    drv = _state['driver']
    out = {'id': job['id'], 'text': job['text'], 'meta': job.get('meta'), 'mismatches': [], 'bm': bool(job.get('bm')),
           'n_cases': 0, 'undefined': 0, 'outcomes': {}, 'unsupported': None, 'compile': 'ok',
           'failpos_diff': 0, 'failpos_cmp': 0, 'instances': 0, 'shift_cases': 0, 'prep': None}
    try:
        with rr.time_limit(20):
            module, rules = rr.compile_grammar(job['text'])
    except Exception as exc:          # noqa: BLE001
        out['compile'] = 'X ' + type(exc).__name__ + ': ' + str(exc)[:200]
        return out
    try:
        w = rr.Wire(rules)
        bodies, ign = w.program()
    except rr.Unsupported as exc:
        out['unsupported'] = str(exc)
        return out
    if w.bytes_mode is None:
        w.bytes_mode = bool(job.get('bm'))
    fuel = job.get('fuel', 96)
    nl = b'\n' if w.bytes_mode else '\n'

    def add(kind, entry, pos, text, full, real, gen, spec, extra=None):
        if len(out['mismatches']) < 6:
            m = {'kind': kind, 'entry': entry, 'pos': pos, 'input': _show(text), 'full': full,
                 'real': real, 'gen': gen, 'peg': spec}
            if extra:
                m['detail'] = extra
            out['mismatches'].append(m)
        out['n_bad'] = out.get('n_bad', 0) + 1

    for entry in job['entries']:
        cases = job['cases']
        if entry == '__module__':
            starts = [n for n in w.index if n and n.lower() == 'start']
            # without a rule called start: the first rule that is not ignored
            eidx = w.index[starts[0]] if starts else next((i for i, r in enumerate(rules) if not getattr(r, 'is_ignored', False)), 0)
        else:
            eidx = w.index[entry]
        req = rr.core_request(w, bodies, ign, eidx, cases, fuel)
        req = req[:-1] + ' (api))'
        reply = drv.ask(req)
        if reply.startswith('error'):
            out['unsupported'] = 'driver: ' + reply
            return out
        items = reply.split(' ; ')
        if entry == '__module__':
            parse = module.parse
        else:
            parse = getattr(module, entry).parse
        for (pos, text), item in zip(cases, items):
            outs = rr.parse_outcomes(item)
            g = {False: outs[0], True: outs[1]}
            s = {False: outs[2], True: outs[3]}
            for full in (False, True):
                real, raw = rr.run_real_api(parse, text, pos, full)
                out['n_cases'] += 1
                key = real[0] if real[0] != 'X' else 'X:' + real[1]
                out['outcomes'][key] = out['outcomes'].get(key, 0) + 1
                if s[full][0] == 'U':
                    out['undefined'] += 1
                    continue
                spec_ok = (real[0] == s[full][0] and (real[0] == 'E' or real[1:] == s[full][1:]))
                model_ok = (real[0] == g[full][0] and (real[0] == 'E' or real[1:] == g[full][1:]))
                if real[0] == 'E' and g[full][0] == 'E':
                    out['failpos_cmp'] += 1
                    if real[1] != g[full][1]:
                        out['failpos_diff'] += 1
                if not spec_ok:
                    add('spec', entry, pos, text, full, real, g[full], s[full])
                elif not model_ok:
                    add('model', entry, pos, text, full, real, g[full], s[full])
                # the three outcomes are distinct: "input remains" is not a kind of "does not match", nor the other way round
                if real[0] == 'P' and isinstance(raw, module.ParseError):
                    add('spec', entry, pos, text, full, real, g[full], s[full], 'the PartialParseError raised is also an instance of ParseError')
                if real[0] == 'E' and isinstance(raw, module.PartialParseError):
                    add('spec', entry, pos, text, full, real, g[full], s[full], 'the ParseError raised is also an instance of PartialParseError')
                # line / column of every instance and of the partial position (C10 / C09)
                if job.get('check_linecol') and real[0] in ('V', 'P'):
                    val = raw if real[0] == 'V' else raw.partial_result
                    for inst in rr.instances(val):
                        info = inst._metadata.position_info
                        if info is None or not hasattr(info, 'start'):
                            continue
                        out['instances'] += 1
                        for which in (info.start, info.end):
                            if which.index < len(text) and text[which.index:which.index + 1] != nl:
                                if (which.line, which.column) != _linecol(text, which.index):
                                    add('spec', entry, pos, text, full, real, g[full], s[full],
                                        f'instance {type(inst).__name__}: position {tuple(which)} but line/column of the index are {_linecol(text, which.index)}')
                    if real[0] == 'P':
                        lp = raw.last_position
                        if text[lp.index:lp.index + 1] != nl and (lp.line, lp.column) != _linecol(text, lp.index):
                            add('spec', entry, pos, text, full, real, g[full], s[full], f'last_position {tuple(lp)}')
                # offset shift law on the implementation: parse(text, k) == shift_k(parse(text[k:], 0))
                if job.get('check_shift') and pos > 0:
                    real0, _ = rr.run_real_api(parse, text[pos:], 0, full)
                    out['shift_cases'] += 1
                    if _shift(real0, pos) != real:
                        add('spec', entry, pos, text, full, real, g[full], ('shifted', _shift(real0, pos)),
                            'parse(text, pos) differs from parse(text[pos:], 0) shifted by pos')
    return out


def _shift(outcome, k):
    import re
    def sh(val):
        return re.sub(r'\(span (\d+) (\d+)\)', lambda m: f'(span {int(m.group(1)) + k} {int(m.group(2)) + k})', val)
    if outcome[0] == 'V':
        return ('V', sh(outcome[1]))
    if outcome[0] == 'P':
        return ('P', sh(outcome[1]), outcome[2] + k)
    if outcome[0] == 'E':
        return ('E', outcome[1] + k)
    return outcome


def run_jobs_api(jobs, flag_bits, procs=None):
    procs = procs or min(16, os.cpu_count() or 4)
    if len(jobs) < 8:
        _init(flag_bits)
        return [_job_api(j) for j in jobs]
    return pool_map(_job_api, jobs, _init, (flag_bits,), chunksize=8, procs=procs)
