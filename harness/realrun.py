"""Running the real sourcer from /repo and converting its prepared expression objects to the
wire format of the Lean driver."""
import re
import sys

from common import import_real, pval, codes, time_limit, Timeout

sourcer = import_real()
from sourcer import translator as _tr            # noqa: E402
from sourcer import expressions as ex            # noqa: E402

try:
    import re._parser as sre_parse
    import re._constants as sre_c
except ImportError:                              # pragma: no cover
    import sre_parse
    import sre_constants as sre_c


class Unsupported(Exception):
    pass


_captured = {}
_orig_assign_ids = _tr._assign_ids


def _capturing_assign_ids(rules):
    _captured['rules'] = rules
    return _orig_assign_ids(rules)


def compile_grammar(text, **kw):
    """Grammar(text) from the working tree; also returns the prepared rule objects the code
    generator consumed (captured at `_assign_ids`, i.e. after start/ignore preparation)."""
    _captured.clear()
    _tr._assign_ids = _capturing_assign_ids
    try:
        module = sourcer.Grammar(text, **kw)
    finally:
        _tr._assign_ids = _orig_assign_ids
    return module, _captured.get('rules')


# ---------------------------------------------------------------------------------------------
# regex -> Rx wire

_CATS = {
    sre_c.CATEGORY_DIGIT: [(48, 57)],
    sre_c.CATEGORY_SPACE: [(9, 13), (32, 32), (28, 31), (133, 133), (160, 160)],
    sre_c.CATEGORY_WORD: [(48, 57), (65, 90), (95, 95), (97, 122)],
}


def _fold(c, ic):
    ch = chr(c)
    if ic and ch.lower() != ch.upper() and c < 128:
        return sorted({ord(ch.lower()), ord(ch.upper())})
    return [c]


def _rx_seq(items, ic, dotall):
    parts = [_rx_item(op, av, ic, dotall) for op, av in items]
    if not parts:
        return 'eps'
    if len(parts) == 1:
        return parts[0]
    return '(seq ' + ' '.join(parts) + ')'


def _rx_item(op, av, ic, dotall):
    if op is sre_c.LITERAL:
        cs = _fold(av, ic)
        if len(cs) == 1:
            return f'(chr {cs[0]})'
        return '(cls 0 ' + ' '.join(f'({c} {c})' for c in cs) + ')'
    if op is sre_c.NOT_LITERAL:
        cs = _fold(av, ic)
        return '(cls 1 ' + ' '.join(f'({c} {c})' for c in cs) + ')'
    if op is sre_c.ANY:
        return f'(any {1 if dotall else 0})'
    if op is sre_c.IN:
        neg = 0
        ranges = []
        for o, a in av:
            if o is sre_c.NEGATE:
                neg = 1
            elif o is sre_c.LITERAL:
                for c in _fold(a, ic):
                    ranges.append((c, c))
            elif o is sre_c.RANGE:
                lo, hi = a
                ranges.append((lo, hi))
                if ic:
                    for c in range(lo, hi + 1):
                        for d in _fold(c, ic):
                            ranges.append((d, d))
            elif o is sre_c.CATEGORY:
                if a not in _CATS:
                    raise Unsupported(f'regex category {a}')
                ranges += _CATS[a]
            else:
                raise Unsupported(f'regex class item {o}')
        return f'(cls {neg} ' + ' '.join(f'({a} {b})' for a, b in ranges) + ')'
    if op is sre_c.BRANCH:
        _, alts = av
        return '(alt ' + ' '.join(_rx_seq(list(a), ic, dotall) for a in alts) + ')'
    if op is sre_c.SUBPATTERN:
        _, add, dele, sub = av
        if add or dele:
            raise Unsupported('regex inline flags')
        return _rx_seq(list(sub), ic, dotall)
    if op in (sre_c.MAX_REPEAT, sre_c.MIN_REPEAT):
        lo, hi, sub = av
        his = 'inf' if hi is sre_c.MAXREPEAT else str(hi)
        g = 1 if op is sre_c.MAX_REPEAT else 0
        return f'(rep {_rx_seq(list(sub), ic, dotall)} {lo} {his} {g})'
    if op is sre_c.AT:
        if av is sre_c.AT_END:
            return '(atend 0)'
        if av is sre_c.AT_END_STRING:
            return '(atend 1)'
        if av in (sre_c.AT_BEGINNING, sre_c.AT_BEGINNING_STRING):
            return 'atstart'
        raise Unsupported(f'regex anchor {av}')
    if op in (sre_c.ASSERT, sre_c.ASSERT_NOT):
        direction, sub = av
        if direction != 1:
            raise Unsupported('regex lookbehind')
        return f'(look {1 if op is sre_c.ASSERT_NOT else 0} {_rx_seq(list(sub), ic, dotall)})'
    raise Unsupported(f'regex op {op}')


def rx_wire(pattern, ignore_case):
    if isinstance(pattern, bytes):
        pattern = pattern.decode('latin-1')
    flags = re.IGNORECASE if ignore_case else 0
    tree = sre_parse.parse(pattern, flags)
    dotall = bool(tree.state.flags & re.DOTALL)
    ic = bool(tree.state.flags & re.IGNORECASE)
    return _rx_seq(list(tree), ic, dotall)


# ---------------------------------------------------------------------------------------------
# expression objects -> wire

class Wire:
    def __init__(self, rules):
        self.rules = rules
        self.index = {}
        for i, r in enumerate(rules):
            self.index[r.name] = i
        self.rx = []
        self.rx_index = {}
        self.bytes_mode = None

    def _mode(self, is_bytes):
        if self.bytes_mode is None:
            self.bytes_mode = is_bytes
        elif self.bytes_mode != is_bytes:
            raise Unsupported('mixed str/bytes literals')

    def regex_id(self, pattern, ic):
        key = (pattern, ic)
        if key not in self.rx_index:
            self.rx_index[key] = len(self.rx)
            self.rx.append(rx_wire(pattern, ic))
        return self.rx_index[key]

    def expr(self, e):
        sk = lambda x: '1' if getattr(x, 'skip_ignored', False) else '0'
        if isinstance(e, ex.Str):
            if e.value:
                self._mode(isinstance(e.value, bytes))
            return f'(str {sk(e)}' + ''.join(f' {c}' for c in codes(e.value)) + ')'
        if isinstance(e, ex.Regex):
            self._mode(isinstance(e.pattern, bytes))
            return f'(regex {sk(e)} {self.regex_id(e.pattern, e.ignore_case)})'
        if isinstance(e, ex.Byte):
            self._mode(True)
            return f'(byte {sk(e)} {e.value})'
        if isinstance(e, ex.Ref):
            name = e.resolved
            if e.is_local:
                raise Unsupported('local reference')
            if name.startswith('_try_'):
                name = name[len('_try_'):]
            if name not in self.index:
                raise Unsupported(f'reference to {name}')
            return f'(ref {self.index[name]})'
        if isinstance(e, ex.Seq):
            if e.constructor is not None:
                raise Unsupported('constructor seq')
            return '(seq' + ''.join(' ' + self.expr(x) for x in e.exprs) + ')'
        if isinstance(e, ex.Discard):
            return f'(discard {1 if e.discard_left else 0} {self.expr(e.expr1)} {self.expr(e.expr2)})'
        if isinstance(e, ex.Choice):
            return '(choice' + ''.join(' ' + self.expr(x) for x in e.exprs) + ')'
        if isinstance(e, ex.Opt):
            return f'(opt {self.expr(e.expr)})'
        if isinstance(e, ex.List):
            mn = self.bound(e.min_len, 0)
            mx = self.bound(e.max_len, 'inf')
            return f'(list {mn} {mx} {self.expr(e.expr)})'
        if isinstance(e, ex.Sep):
            b = lambda v: '1' if v else '0'
            return (f'(sep {b(e.discard_separators)} {b(e.allow_trailer)} {b(e.allow_empty)} '
                    f'{b(e.require_separator)} {self.expr(e.expr)} {self.expr(e.separator)})')
        if isinstance(e, ex.Expect):
            return f'(expect {self.expr(e.expr)})'
        if isinstance(e, ex.ExpectNot):
            return f'(expectnot {self.expr(e.expr)})'
        if isinstance(e, ex.Skip):
            return '(skip' + ''.join(' ' + self.expr(x) for x in e.exprs) + ')'
        if isinstance(e, ex.Longest):
            return '(longest' + ''.join(' ' + self.expr(x) for x in e.exprs) + ')'
        if isinstance(e, ex.Backtrack):
            return f'(backtrack {e.amount})'
        if isinstance(e, ex.Fail):
            return 'fail'
        if isinstance(e, ex.OperatorTable):
            def rows(x):
                if x is None:
                    return []
                if isinstance(x, ex.Longest):
                    return list(x.exprs)
                return [x]
            def tagged(row):
                if not (isinstance(row, ex.Apply) and not row.apply_left and isinstance(row.expr2, ex.PythonExpression)):
                    raise Unsupported('operator row shape')
                m = re.fullmatch(r'lambda x: \(([\d, ]+), x\)', row.expr2.source_code)
                if not m:
                    raise Unsupported('operator tagger ' + row.expr2.source_code)
                tag = [int(t) for t in m.group(1).split(',')]
                return f'(tagged {self.expr(row.expr1)} ' + ' '.join(str(t) for t in tag) + ')'
            operands = rows(e.operands)
            return ('(optable (pre' + ''.join(' ' + tagged(r) for r in rows(e.prefixes)) + ')'
                    f' (operand {self.expr(operands[0])})'
                    ' (mixfix' + ''.join(' ' + self.expr(r) for r in operands[1:]) + ')'
                    ' (post' + ''.join(' ' + tagged(r) for r in rows(e.postfixes)) + ')'
                    ' (inf' + ''.join(' ' + tagged(r) for r in rows(e.infixes)) + '))')
        if isinstance(e, ex.PythonExpression):
            src = e.source_code.strip()
            if src == 'None':
                return '(py N)'
            if src in ('True', 'False'):
                return f'(py {src[0]})'
            if re.fullmatch(r'-?\d+', src):
                return f'(py (i {int(src)}))'
            raise Unsupported('inline python')
        raise Unsupported(type(e).__name__)

    def bound(self, v, default):
        if v is None:
            return default
        if isinstance(v, bool):
            raise Unsupported('bool bound')
        if isinstance(v, int):
            return v
        if isinstance(v, str) and re.fullmatch(r'\d+', v):
            return int(v)
        raise Unsupported('dynamic bound')

    def rule_body(self, r):
        if isinstance(r, ex.Class):
            if r.params:
                raise Unsupported('class parameters')
            ms = []
            for m in r.members:
                body = self.expr(m.expr)
                if m.name and not m.is_omitted:
                    ms.append(f'(keep {m.name} {body})')
                else:
                    ms.append(f'(drop {body})')
            return f'(cls {r.name}' + ''.join(' ' + m for m in ms) + ')'
        if isinstance(r, ex.Rule):
            if r.params:
                raise Unsupported('rule parameters')
            return self.expr(r.expr)
        raise Unsupported(type(r).__name__)

    def program(self):
        bodies = [self.rule_body(r) for r in self.rules]
        ign = self.index.get('_ignored', -1)
        return bodies, ign


def core_request(wire, bodies, ign, entry_index, cases, fuel):
    """cases: list of (pos, text) ; text str or bytes"""
    bm = 1 if wire.bytes_mode else 0
    cs = ' '.join('(' + str(p) + ''.join(f' {c}' for c in codes(t)) + ')' for p, t in cases)
    return (f'(core (bytes {bm}) (ign {ign}) (fuel {fuel}) (rx {" ".join(wire.rx)}) '
            f'(rules {" ".join(bodies)}) (entry (ref {entry_index})) (cases {cs}))')


# time-outs seen by this worker process: 'confirmed' = repeated with six times the limit
_TIMEOUTS = {'confirmed': 0, 'total': 0}
# An implementation that hangs on many cases must not make a check run for hours: once a worker process has seen this many
# time-outs (three of them confirmed with six times the limit), every further call is answered 'Timeout' without running.
# On a tree where the property holds no call times out, so the cap never comes into play there.
TIMEOUT_CAP = 10


def run_real(parse, text, pos=0, spans=False, limit=5.0, _retry=True):
    """outcome of the implementation in the model's vocabulary:
    ('S', value, end) | ('F', index) | ('X', ExceptionClass).
    A time-out is only believed when it repeats with six times the limit (a loaded machine must not raise an alarm)."""
    if _retry:
        if _TIMEOUTS['total'] >= TIMEOUT_CAP:
            return ('X', 'Timeout')      # see TIMEOUT_CAP
        r = run_real(parse, text, pos, spans, limit, _retry=False)
        if r == ('X', 'Timeout') and _TIMEOUTS['confirmed'] < 3:
            r = run_real(parse, text, pos, spans, limit * 6, _retry=False)
            if r == ('X', 'Timeout'):
                _TIMEOUTS['confirmed'] += 1      # this process has seen code that really hangs: later time-outs are believed at once
        if r == ('X', 'Timeout'):
            _TIMEOUTS['total'] += 1
        return r
    mod = sys.modules.get(parse.__module__) if hasattr(parse, '__module__') else None
    try:
        with time_limit(limit):
            v = parse(text, pos)
        return ('S', pval(v, spans), len(text))
    except Timeout:
        return ('X', 'Timeout')
    except Exception as exc:       # noqa: BLE001
        name = type(exc).__name__
        if name == 'PartialParseError' and hasattr(exc, 'partial_result'):
            return ('S', pval(exc.partial_result, spans), exc.last_position.index)
        if name == 'ParseError' and hasattr(exc, 'position'):
            return ('F', exc.position.index)
        return ('X', name)
    except RecursionError:
        return ('X', 'RecursionError')


def parse_reply_item(item):
    """'<gen> <peg>' -> (gen, peg) each ('S', valstr, pos) | ('F', pos|None) | ('U',)"""
    item = item.strip()

    def take(s):
        s = s.lstrip()
        if s.startswith('U'):
            return ('U',), s[1:]
        if s.startswith('F'):
            return ('F', None), s[1:]
        assert s[0] == '(', s
        depth = 0
        for i, ch in enumerate(s):
            if ch == '(':
                depth += 1
            elif ch == ')':
                depth -= 1
                if depth == 0:
                    break
        tok = s[1:i]
        rest = s[i + 1:]
        if tok.startswith('F '):
            return ('F', int(tok[2:])), rest
        assert tok.startswith('S '), tok
        body = tok[2:]
        j = body.rindex(' ')
        return ('S', body[:j], int(body[j + 1:])), rest

    g, rest = take(item)
    p, rest = take(rest)
    return g, p


# ---------------------------------------------------------------------------------------------
# generator-side (unprepared) grammars -> wire, for the `prepare` correspondence

class TupleWire:
    """wire form of the harness's own expression tuples (before preparation)"""

    def __init__(self, names, bm=False):
        self.index = {n: i for i, n in enumerate(names)}
        self.rx = []
        self.rx_index = {}
        self.bm = bm

    def regex_id(self, pattern, ic):
        key = (pattern, ic)
        if key not in self.rx_index:
            self.rx_index[key] = len(self.rx)
            self.rx.append(rx_wire(pattern, ic))
        return self.rx_index[key]

    def expr(self, e):
        k = e[0]
        x = self.expr
        if k == 'str':
            return '(str 0' + ''.join(f' {c}' for c in codes(e[1])) + ')'
        if k == 'ci':
            return f'(regex 0 {self.regex_id(re.escape(e[1]), True)})'
        if k == 'rx':
            return f'(regex 0 {self.regex_id(e[1], False)})'
        if k == 'byte':
            return f'(byte 0 {e[1]})'
        if k == 'ref':
            return f'(ref {self.index[e[1]]})'
        if k == 'seq':
            return '(seq' + ''.join(' ' + x(c) for c in e[1]) + ')'
        if k == 'dis':
            return f'(discard {1 if e[1] else 0} {x(e[2])} {x(e[3])})'
        if k == 'alt':
            # `a | b | c` is flattened by the translator
            def flatten(alt):
                out = []
                for c in alt[1]:
                    out += flatten(c) if c[0] == 'alt' else [c]
                return out
            return '(choice' + ''.join(' ' + x(c) for c in flatten(e)) + ')'
        if k == 'opt':
            return f'(opt {x(e[1])})'
        if k == 'rep':
            return f'(list {e[1]} {"inf" if e[2] is None else e[2]} {x(e[3])})'
        if k == 'sep':
            d, t, em, rq = e[1]
            b = lambda v: '1' if v else '0'
            return f'(sep {b(d)} {b(t)} {b(em)} {b(rq)} {x(e[2])} {x(e[3])})'
        if k == 'exp':
            return f'(expect {x(e[1])})'
        if k == 'not':
            return f'(expectnot {x(e[1])})'
        if k == 'skip':
            return '(skip' + ''.join(' ' + x(c) for c in e[1]) + ')'
        if k == 'long':
            return '(longest' + ''.join(' ' + x(c) for c in e[1]) + ')'
        if k == 'bt':
            return f'(backtrack {e[1]})'
        if k == 'fail':
            return 'fail'
        if k == 'py':
            src = e[1]
            if src == 'None':
                return '(py N)'
            if src in ('True', 'False'):
                return f'(py {src[0]})'
            return f'(py (i {int(src)}))'
        raise Unsupported(k)


def inline_rx(text, rx_table):
    """replace regex ids by their content so that two numberings can be compared"""
    return re.sub(r'\(regex ([01]) (\d+)\)', lambda m: f'(regex {m.group(1)} {rx_table[int(m.group(2))]})', text)


# ---------------------------------------------------------------------------------------------
# API-level outcomes (C08/C10)

def pval_api(v):
    """canonical print with *finalised* spans (start.index, end.index)"""
    if hasattr(v, '_fields') and hasattr(v, '_metadata'):
        info = v._metadata.position_info
        sp = ''
        if info is not None:
            try:
                sp = f' (span {info.start.index} {info.end.index})'
            except AttributeError:
                sp = f' (rawspan {info[0]} {info[1]})'
        fs = ''.join(f' ({f} {pval_api(getattr(v, f))})' for f in v._fields)
        return f'(o {type(v).__name__}{sp}{fs})'
    if isinstance(v, list):
        return '(l' + ''.join(' ' + pval_api(x) for x in v) + ')'
    if isinstance(v, tuple) and not hasattr(v, '_fields'):
        return '(t' + ''.join(' ' + pval_api(x) for x in v) + ')'
    return pval(v)


def run_real_api(parse, text, pos, full, limit=5.0, _retry=True):
    """('V', val) | ('P', val, idx) | ('E', idx) | ('X', name); also returns the raw value/exception.
    A time-out is only believed when it repeats with six times the limit."""
    if _retry:
        if _TIMEOUTS['total'] >= TIMEOUT_CAP:
            return ('X', 'Timeout'), None      # see TIMEOUT_CAP
        r = run_real_api(parse, text, pos, full, limit, _retry=False)
        if r[0] == ('X', 'Timeout') and _TIMEOUTS['confirmed'] < 3:
            r = run_real_api(parse, text, pos, full, limit * 6, _retry=False)
            if r[0] == ('X', 'Timeout'):
                _TIMEOUTS['confirmed'] += 1
        if r[0] == ('X', 'Timeout'):
            _TIMEOUTS['total'] += 1
        return r
    try:
        with time_limit(limit):
            v = parse(text, pos, full)
        return ('V', pval_api(v)), v
    except Timeout:
        return ('X', 'Timeout'), None
    except RecursionError:
        return ('X', 'RecursionError'), None
    except Exception as exc:       # noqa: BLE001
        name = type(exc).__name__
        if name == 'PartialParseError' and hasattr(exc, 'partial_result'):
            return ('P', pval_api(exc.partial_result), exc.last_position.index), exc
        if name == 'ParseError' and hasattr(exc, 'position'):
            return ('E', exc.position.index), exc
        return ('X', name), exc


def parse_outcomes(item):
    """'<o> <o> <o> <o>' -> list of outcomes ('V', val) | ('P', val, idx) | ('E', idx|None) | ('X', n) | ('U',)"""
    out = []
    s = item.strip()
    while s:
        s = s.lstrip()
        if not s:
            break
        if s[0] == 'U':
            out.append(('U',))
            s = s[1:]
            continue
        depth = 0
        for i, ch in enumerate(s):
            if ch == '(':
                depth += 1
            elif ch == ')':
                depth -= 1
                if depth == 0:
                    break
        tok, s = s[1:i], s[i + 1:]
        kind, rest = tok[0], tok[2:]
        if kind == 'V':
            out.append(('V', rest))
        elif kind == 'P':
            j = rest.rindex(' ')
            out.append(('P', rest[:j], int(rest[j + 1:])))
        elif kind == 'E':
            out.append(('E', None if rest == '-' else int(rest)))
        else:
            out.append(('X', rest))
    return out


def instances(v, acc=None):
    """every ParsedObject occurrence reachable through fields, lists, tuples (with repetition)"""
    acc = [] if acc is None else acc
    if hasattr(v, '_fields') and hasattr(v, '_metadata'):
        acc.append(v)
        for f in v._fields:
            instances(getattr(v, f), acc)
    elif isinstance(v, (list, tuple)):
        for x in v:
            instances(x, acc)
    return acc
