"""Shared infrastructure of the verification harness (paths, real-code import, driver, evidence)."""
import json
import os
import random
import signal
import subprocess
import sys
import time

VERIF = os.path.dirname(os.path.dirname(os.path.abspath(__file__)))
REPO = os.environ.get('SOURCER_REPO', '/repo')
LEAN = os.path.join(VERIF, 'lean')
DRIVER = os.path.join(LEAN, '.lake', 'build', 'bin', 'driver')
XDRIVER = os.path.join(LEAN, '.lake', 'build', 'bin', 'xdriver')
EVIDENCE = os.path.join(VERIF, 'evidence')
REPLAYS = os.path.join(VERIF, 'replays')
GUARD = 'SOURCER_VERIF'

TRUSTED_BASE = [
    'Lean 4.33.0 kernel (re-checked by leanchecker in the thorough tier)',
    'axioms: propext, Classical.choice, Quot.sound only (Audit.lean, checked on every run)',
    'translators harness/extract_flags.py (T1), harness/py2lean.py (T2) and the correspondence harness',
    'CPython 3.12 and outsourcer.CodeBuilder executing/rendering the emitted text as the model denotes it',
]


def import_real():
    """Import sourcer from the working tree of /repo (never an installed copy)."""
    os.environ.setdefault(GUARD, '1')
    if REPO not in sys.path:
        sys.path.insert(0, REPO)
    for name in list(sys.modules):
        if name == 'sourcer' or name.startswith('sourcer.'):
            mod = sys.modules[name]
            f = getattr(mod, '__file__', '') or ''
            if not f.startswith(REPO + os.sep):
                del sys.modules[name]
    import sourcer
    assert sourcer.__file__.startswith(REPO + os.sep), sourcer.__file__
    return sourcer


class Timeout(Exception):
    pass


def _alarm(signum, frame):
    raise Timeout()


class time_limit:
    """Watchdog for calls into the implementation (main thread of a worker only).  The limit is CPU time of this
    process (a hang in generated code burns CPU), so a loaded machine cannot turn a fast parse into a time-out;
    a wall-clock backstop of twenty times the limit catches anything that blocks without computing."""

    def __init__(self, seconds):
        self.seconds = seconds

    def __enter__(self):
        self.old_prof = signal.signal(signal.SIGPROF, _alarm)
        self.old_alrm = signal.signal(signal.SIGALRM, _alarm)
        signal.setitimer(signal.ITIMER_PROF, self.seconds)
        signal.setitimer(signal.ITIMER_REAL, self.seconds * 20)

    def __exit__(self, *a):
        signal.setitimer(signal.ITIMER_PROF, 0)
        signal.setitimer(signal.ITIMER_REAL, 0)
        signal.signal(signal.SIGPROF, self.old_prof)
        signal.signal(signal.SIGALRM, self.old_alrm)
        return False


class Driver:
    """The compiled Lean driver behind a line protocol."""

    def __init__(self, flag_bits=None, exe=None):
        exe = exe or DRIVER
        if not os.path.exists(exe):
            raise RuntimeError('driver not built: ' + exe)
        self.p = subprocess.Popen([exe], stdin=subprocess.PIPE, stdout=subprocess.PIPE,
                                  text=True, bufsize=1)
        if flag_bits is not None:
            r = self.ask('(flags ' + ' '.join('1' if b else '0' for b in flag_bits) + ')')
            if r != 'ok':
                raise RuntimeError('driver rejected flag table: ' + r)

    def ask(self, line):
        assert '\n' not in line
        self.p.stdin.write(line + '\n')
        self.p.stdin.flush()
        out = self.p.stdout.readline()
        if not out:
            raise RuntimeError('driver died on: ' + line[:200])
        return out.rstrip('\n')

    def close(self):
        try:
            self.p.stdin.close()
            self.p.wait(timeout=5)
        except Exception:
            self.p.kill()


# ----------------------------------------------------------------------------------------------
# canonical printing of Python values (same format as Sourcer.Val.print)

def codes(s):
    if isinstance(s, (bytes, bytearray)):
        return list(s)
    return [ord(c) for c in s]


def pval(v, spans=False):
    if v is None:
        return 'N'
    if v is True:
        return 'T'
    if v is False:
        return 'F'
    if isinstance(v, int):
        return f'(i {int(v)})'
    if isinstance(v, str):
        return '(s' + ''.join(f' {c}' for c in codes(v)) + ')'
    if isinstance(v, (bytes, bytearray)):
        return '(b' + ''.join(f' {c}' for c in codes(v)) + ')'
    if isinstance(v, list):
        return '(l' + ''.join(' ' + pval(x, spans) for x in v) + ')'
    if isinstance(v, tuple) and not hasattr(v, '_fields'):
        return '(t' + ''.join(' ' + pval(x, spans) for x in v) + ')'
    if hasattr(v, '_fields') and hasattr(v, '_metadata'):
        sp = ''
        if spans:
            info = v._metadata.position_info
            if info is not None:
                # finalised spans are (start.index, end.index) with end = raw end - 1
                try:
                    sp = f' (span {info.start.index} {info.end.index + 1})'
                except AttributeError:
                    sp = f' (span {info[0]} {info[1]})'
        fs = ''.join(f' ({f} {pval(getattr(v, f), spans)})' for f in v._fields)
        return f'(o {type(v).__name__}{sp}{fs})'
    if callable(v):
        return 'E'
    return f'(unknown {type(v).__name__})'


# ----------------------------------------------------------------------------------------------
# evidence / findings / replays

def load_known_findings():
    path = os.path.join(VERIF, 'known_findings.json')
    if not os.path.exists(path):
        return {'open': [], 'fixed': []}
    with open(path) as f:
        return json.load(f)


def write_replay(prop, payload):
    os.makedirs(REPLAYS, exist_ok=True)
    n = 0
    while True:
        path = os.path.join(REPLAYS, f'{prop}-{n}.json')
        if not os.path.exists(path):
            break
        n += 1
    with open(path, 'w') as f:
        json.dump(payload, f, indent=1, sort_keys=True, default=str)
    return os.path.relpath(path, VERIF)


def write_evidence(prop, tier, seed, level, coverage, wall_s, violations, assumptions):
    os.makedirs(EVIDENCE, exist_ok=True)
    doc = {
        'property_id': prop,
        'tier': tier,
        'seed': int(seed),
        'level': level,
        'coverage': coverage,
        'assumptions': assumptions,
        'wall_s': round(wall_s, 2),
        'violations': int(violations),
    }
    path = os.path.join(EVIDENCE, f'{prop}.json')
    tmp = path + '.tmp'
    with open(tmp, 'w') as f:
        json.dump(doc, f, indent=1, sort_keys=True, default=str)
    os.replace(tmp, path)
    return path
